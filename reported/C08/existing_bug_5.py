#!/usr/bin/env python
"""EXISTING DEFECT 5 (unchanged library): PyPy 3.9.10/11/12/15/16 resolve to
CPython's opcode table and CPython's magic.

xdis/magics.py lists "3.9.10pypy 3.9.11pypy 3.9.12pypy 3.9.15pypy 3.9.16pypy"
in the add_canonic_versions(..., "3.9.0beta5") group of CPython 3.9, so
canonic_python_version["3.9.15pypy"] is "3.9.0beta5".  The alias loop at the
bottom of the op_imports table (op_imports[k] = op_imports[canonic[k]]) then
OVERWRITES the explicit rows "3.9.15pypy": opcode_39pypy and
"3.9.16pypy": opcode_39pypy with opcode_39.  Result: on/for a PyPy 3.9.15 or
3.9.16 interpreter get_opcode_module() hands out the CPython table, while
3.9.17pypy/3.9.18pypy get opcode_39pypy; and magics["3.9.15pypy"] is 3425,
although the table's own comment says magic 336 is what "PyPy 3.9.15" writes.

Exit 1 (bug present) / 0 (fixed).
"""
import sys

from xdis.magics import magic2int, magics
from xdis.op_imports import get_opcode_module, op_imports


def main():
    problems = []
    for v in ((3, 9, 15), (3, 9, 16), (3, 9, 17), (3, 9, 18)):
        name = "%d.%d.%dpypy" % v
        opc = get_opcode_module(v, "pypy")
        print("get_opcode_module(%r, 'pypy') -> %s ; op_imports[%r] -> %s ; magics[%r] = %d" % (
            v, opc.__name__, name, op_imports[name].__name__, name, magic2int(magics[name])))
        if "pypy" not in opc.__name__:
            problems.append("PyPy %s gets the CPython table %s" % (name, opc.__name__))
        if magic2int(magics[name]) != 336:
            problems.append("magics[%r] is %d, not PyPy 3.9's 336" % (name, magic2int(magics[name])))
    if problems:
        print("DEFECT PRESENT:")
        for p in problems:
            print("  " + p)
        return 1
    print("ok")
    return 0


if __name__ == "__main__":
    sys.exit(main())

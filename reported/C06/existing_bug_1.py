#!/usr/bin/env python
"""Existing defect: a timestamp-based pyc with magic 3393 (CPython 3.7.0b1..b4)
is reported as hash-based.

xdis/load.py, load_module_from_file_object:
    if (pep_bits & 1) or magic_int == 3393:  # 3393 is 3.7.0beta3
        sip_hash = unpack("<Q", fp.read(8))[0]
forces the hash-based decoding for every 3393 file whatever the PEP 552 flags
word says.  Magic 3393 uses the final PEP 552 layout (PEP 552 arrived with 3392,
see Lib/importlib/_bootstrap_external.py), so flags == 0 means mtime + size.
The repository's own samples test/bytecode_3.7/01_dead_code.pyc and
01_unicode.pyc (flags 0) are mis-reported the same way.
"""
import contextlib, io, os, shutil, struct, subprocess, sys, tempfile
import xdis
from xdis.load import load_module

PY37 = "/root/.pyenv/versions/3.7.16/bin/python"
SOURCE = "def f():\n    return 1\n"
MTIME = 1507749729


def quiet(path, **kw):
    with contextlib.redirect_stderr(io.StringIO()):
        return load_module(path, **kw)


def main():
    tmp = tempfile.mkdtemp(prefix="c06bug1-")
    bad = []
    try:
        src = os.path.join(tmp, "m.py")
        open(src, "w").write(SOURCE)
        os.utime(src, (MTIME, MTIME))
        pyc = os.path.join(tmp, "m.pyc")
        env = dict(os.environ); env.pop("PYTHONPATH", None); env.pop("SOURCE_DATE_EPOCH", None)
        subprocess.check_call([PY37, "-c", "import py_compile,sys; py_compile.compile(sys.argv[1], cfile=sys.argv[2], doraise=True)", src, pyc], env=env)
        raw = open(pyc, "rb").read()
        assert raw[4:8] == b"\0\0\0\0"          # flags: timestamp-based
        raw = struct.pack("<H", 3393) + raw[2:]  # same layout, magic of 3.7.0b1-b4
        open(pyc, "wb").write(raw)
        v, ts, magic, co, pypy, size, sip = quiet(pyc)
        want = (MTIME, len(SOURCE), None)
        print("synthetic 3393 file, flags=0: header bytes", raw[:16].hex())
        print("  expected (timestamp, size, sip_hash) =", want)
        print("  load_module gives                    =", (ts, size, sip))
        if (ts, size, sip) != want:
            bad.append("synthetic")
        sample = os.path.join(os.path.dirname(os.path.dirname(xdis.__file__)), "test", "bytecode_3.7", "01_dead_code.pyc")
        if os.path.exists(sample):
            raw = open(sample, "rb").read()
            flags, w1, w2 = struct.unpack("<III", raw[4:16])
            v, ts, magic, co, pypy, size, sip = quiet(sample, get_code=False)
            print("repo sample %s: magic %d flags %d" % (sample, magic, flags))
            print("  expected (timestamp, size, sip_hash) =", (w1, w2, None))
            print("  load_module gives                    =", (ts, size, sip))
            if flags == 0 and (ts, size, sip) != (w1, w2, None):
                bad.append("sample")
    finally:
        shutil.rmtree(tmp, ignore_errors=True)
    if bad:
        print("DEFECT PRESENT:", bad)
        return 1
    print("not reproduced")
    return 0


if __name__ == "__main__":
    sys.exit(main())

#!/usr/bin/env python
"""Existing defect: the pre-PEP-552 3.7 alphas (magic 3390 = 3.7a1, 3391 = 3.7a2/a3)
are decoded with the 16-byte PEP 552 header.

xdis/load.py, load_module_from_file_object decides with `version >= (3, 7)`;
magics 3390/3391 ("3.7.0alpha0"/"3.7.0alpha3" in xdis/magics.py) map to (3, 7, 0).
CPython only added the flags word with magic 3392 (3.7a4):
  Lib/importlib/_bootstrap_external.py:
    Python 3.7a2  3391 (update GET_AITER #31709)
    Python 3.7a4  3392 (PEP 552: Deterministic pycs #31650)
so a 3391 file has the 3.3-3.6 layout: magic, mtime, size, code at offset 12.
xdis takes the low bit of the *mtime* as the hash-based flag and reads the
code object from offset 16.
"""
import contextlib, io, os, shutil, struct, subprocess, sys, tempfile
from xdis.load import load_module

PY36 = "/root/.pyenv/versions/3.6.15/bin/python"
SOURCE = "def f():\n    return 1\n"


def quiet(path, **kw):
    with contextlib.redirect_stderr(io.StringIO()):
        return load_module(path, **kw)


def main():
    ref = "/root/.pyenv/versions/3.7.16/lib/python3.7/importlib/_bootstrap_external.py"
    if os.path.exists(ref):
        for line in open(ref):
            if " 3391 " in line or " 3392 " in line:
                print("CPython:", line.strip())
    tmp = tempfile.mkdtemp(prefix="c06bug3-")
    bad = []
    try:
        src = os.path.join(tmp, "m.py")
        open(src, "w").write(SOURCE)
        pyc36 = os.path.join(tmp, "m36.pyc")
        env = dict(os.environ); env.pop("PYTHONPATH", None)
        # 3.6 writes the same 12-byte header and (wordcode) marshal layout the 3.7 alphas used.
        subprocess.check_call([PY36, "-c", "import py_compile,sys; py_compile.compile(sys.argv[1], cfile=sys.argv[2], doraise=True)", src, pyc36], env=env)
        payload = open(pyc36, "rb").read()[12:]
        for magic in (3390, 3391):
            for mtime in (1510000000, 1510000001):   # even / odd
                path = os.path.join(tmp, "a-%d-%d.pyc" % (magic, mtime))
                raw = struct.pack("<H", magic) + b"\r\n" + struct.pack("<II", mtime, len(SOURCE)) + payload
                open(path, "wb").write(raw)
                want = (mtime, len(SOURCE), None)
                v, ts, m, co, pypy, size, sip = quiet(path, get_code=False)
                print("magic %d mtime %d: expected (timestamp, size, sip_hash) = %r, load_module gives %r"
                      % (magic, mtime, want, (ts, size, sip)))
                if (ts, size, sip) != want:
                    bad.append((magic, mtime, "header"))
                try:
                    co = quiet(path)[3]
                    ok = getattr(co, "co_name", None) == "<module>"
                    detail = repr(co)
                except Exception as e:
                    ok, detail = False, "load failed: " + str(e).splitlines()[-1][:100]
                if not ok:
                    print("    code object not read from offset 12:", detail)
                    bad.append((magic, mtime, "code"))
    finally:
        shutil.rmtree(tmp, ignore_errors=True)
    if bad:
        print("DEFECT PRESENT:", bad)
        return 1
    print("not reproduced")
    return 0


if __name__ == "__main__":
    sys.exit(main())

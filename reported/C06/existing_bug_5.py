#!/usr/bin/env python
"""Existing defect: a PyPy 3.2 file (magic 48, bytes 30 00 0d 0a) is reported with
magic_int 3187, a number that does not occur in the file.

xdis/load.py: `if magic[0:1] in ["0", b"0"]: magic = int2magic(3180 + 7)` and
later `magic_int = magic2int(magic)`; the returned version tuple still comes
from the original 48.  (xdis.magics knows 48 as "3.2pypy".)
"""
import contextlib, io, os, struct, sys
import xdis
from xdis.load import load_module
from xdis.magics import magicint2version

sample = os.path.join(os.path.dirname(os.path.dirname(xdis.__file__)), "test", "bytecode_3.2pypy", "01_unicode.pyc")
if not os.path.exists(sample):
    print("sample not found")
    sys.exit(0)
raw = open(sample, "rb").read()
file_magic = struct.unpack("<H", raw[:2])[0]
with contextlib.redirect_stderr(io.StringIO()):
    v, ts, magic, co, pypy, size, sip = load_module(sample)
print("file %s header %s: magic in file %d (%s)" % (sample, raw[:8].hex(), file_magic, magicint2version.get(file_magic)))
print("  load_module reports magic_int %r (%s), version %r" % (magic, magicint2version.get(magic), v))
if magic != file_magic:
    print("DEFECT PRESENT: reported magic differs from the file's")
    sys.exit(1)
print("not reproduced")

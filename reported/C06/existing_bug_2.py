#!/usr/bin/env python
"""Existing defect: Dropbox 2.5 files (magic 62135) come back with a source
size and with another magic.

xdis/load.py rewinds the file (fp.seek(0)) and calls
xdis/dropbox/decrypt25.py:fix_dropbox_pyc, which starts with
    source_size = struct.unpack("I", fp.read(4))[0]  # size mod 2**32
so the "source size" is the 4-byte magic word itself (b7 f2 0d 0a ->
168686263), although a Python 2.5 header stores a timestamp only; and the
function returns the constant 62131 as magic_int although the file says 62135.
"""
import contextlib, io, os, struct, sys
import xdis
from xdis.load import load_module

sample = os.path.join(os.path.dirname(os.path.dirname(xdis.__file__)), "test", "bytecode_2.5dropbox", "codeop.pyc")
if not os.path.exists(sample):
    print("sample file not found:", sample)
    sys.exit(0)
raw = open(sample, "rb").read()
file_magic = struct.unpack("<H", raw[:2])[0]
magic_word, stamp = struct.unpack("<II", raw[:8])
with contextlib.redirect_stderr(io.StringIO()), contextlib.redirect_stdout(io.StringIO()):
    v, ts, magic, co, pypy, size, sip = load_module(sample)
print("file:", sample, "header", raw[:8].hex())
print("  expected version (2, 5), magic %d, timestamp %d, source_size None" % (file_magic, stamp))
print("  load_module gives version %r, magic %r, timestamp %r, source_size %r" % (v, magic, ts, size))
bad = []
if size is not None:
    bad.append("source_size %r reported for a 2.5 file (it is the magic word 0x%08x)" % (size, magic_word))
if magic != file_magic:
    bad.append("magic_int %r reported, file has %r" % (magic, file_magic))
if bad:
    print("DEFECT PRESENT:")
    for b in bad:
        print("  " + b)
    sys.exit(1)
print("not reproduced")

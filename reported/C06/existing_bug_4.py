#!/usr/bin/env python
"""Existing defect: magic 3200 (3.3a1, "__qualname__ added") is decoded as if it
had the source-size word.

xdis/load.py reads a size when `3200 <= magic_int < 20121`, but the size word
was added with the *next* magic, 3210 (xdis/magics.py says so itself: "Added
size modulo 2**32 to the pyc header ... add_magic_from_int(3210, "3.3a2")";
CPython: "Python 3.3a1 3210 (added size modulo 2**32 to the pyc header #13645)").
3200 is accepted by load_module (it is not in the "interim" reject list), so a
3200 file = magic, mtime, code at offset 8 gets the first four bytes of the
code object reported as source_size and the code read from offset 12.
"""
import contextlib, io, os, shutil, struct, sys, tempfile
import xdis
from xdis.load import load_module


def quiet(path, **kw):
    with contextlib.redirect_stderr(io.StringIO()):
        return load_module(path, **kw)


def main():
    sample = os.path.join(os.path.dirname(os.path.dirname(xdis.__file__)), "test", "bytecode_3.3", "06_frozenset.pyc")
    if os.path.exists(sample):
        payload = open(sample, "rb").read()[12:]      # a genuine 3.3 code object
    else:
        payload = b"c" + b"\0" * 80
    tmp = tempfile.mkdtemp(prefix="c06bug4-")
    bad = []
    try:
        mtime = 1330000000
        path = os.path.join(tmp, "q.pyc")
        open(path, "wb").write(struct.pack("<H", 3200) + b"\r\n" + struct.pack("<I", mtime) + payload)
        v, ts, m, co, pypy, size, sip = quiet(path, get_code=False)
        print("magic 3200: expected version (3, 3), timestamp %d, source_size None" % mtime)
        print("            load_module gives version %r, timestamp %r, source_size %r" % (v, ts, size))
        if size is not None:
            bad.append("source_size %r reported (= first bytes of the code object %s)" % (size, payload[:4].hex()))
        try:
            co = quiet(path)[3]
            if getattr(co, "co_name", None) != "<module>":
                bad.append("code object not read from offset 8: %r" % (co,))
        except Exception as e:
            bad.append("code object not read from offset 8: " + str(e).splitlines()[-1][:100])
        # control: the same payload under 3190 (no size) and 3210 (size) loads fine
        for magic, hdr in ((3190, struct.pack("<I", mtime)), (3210, struct.pack("<II", mtime, 180))):
            open(path, "wb").write(struct.pack("<H", magic) + b"\r\n" + hdr + payload)
            r = quiet(path)
            print("control magic %d: timestamp %r size %r code %r" % (magic, r[1], r[5], getattr(r[3], "co_name", r[3])))
    finally:
        shutil.rmtree(tmp, ignore_errors=True)
    if bad:
        print("DEFECT PRESENT:")
        for b in bad:
            print("  " + b)
        return 1
    print("not reproduced")
    return 0


if __name__ == "__main__":
    sys.exit(main())

#!/usr/bin/env python
"""EXISTING DEFECT 2 (unchanged library): memory exhaustion on the same-version path.

When the file's magic equals the running interpreter's, load_module_from_file_object
hands the body to the C marshal.loads().  CPython's marshal allocates a tuple/list
of the *announced* size before reading a single element, so a 61-byte file that
says "tuple of 2**31-1 items" makes load_module allocate and zero 16 GB (on a
machine with less memory: OOM kill, or minutes of swapping).  A single flipped
byte in a real file does it too:  test/bytecode_3.12/02_while1else.py.pyc with
byte 0x12e changed from ')' to '(' announces a 1.9e9-element tuple.

The script keeps itself harmless: it announces "only" 100 million items (800 MB)
and measures the child's peak RSS; the one-byte mutation is run under a 2 GB
address-space limit, where the attempt shows up as MemoryError inside the ImportError.

Exit 1 when the defect is observed, 0 otherwise.
"""
import json, os, shutil, struct, subprocess, sys, tempfile

CHILD = r"""
import contextlib, io, json, resource, sys
from xdis.load import load_module
if sys.argv[2] != "0":
    lim = int(sys.argv[2]); resource.setrlimit(resource.RLIMIT_AS, (lim, lim))
r0 = resource.getrusage(resource.RUSAGE_SELF).ru_maxrss
try:
    with contextlib.redirect_stderr(io.StringIO()):
        load_module(sys.argv[1]); res = "7-tuple"
except ImportError as e:
    res = "ImportError: " + str(e).splitlines()[-1]
except BaseException as e:
    res = "OTHER " + type(e).__name__
print("@@" + json.dumps({"res": res, "before_kb": r0, "after_kb": resource.getrusage(resource.RUSAGE_SELF).ru_maxrss}))
"""


def run(path, limit):
    p = subprocess.run([sys.executable, "-c", CHILD, path, str(limit)], stdout=subprocess.PIPE, stderr=subprocess.PIPE, timeout=600)
    line = [l for l in p.stdout.decode().splitlines() if l.startswith("@@")]
    if not line:
        return {"res": "child died rc=%d %s" % (p.returncode, p.stderr.decode()[-300:]), "before_kb": 0, "after_kb": 0}
    return json.loads(line[-1][2:])


def main():
    from xdis.magics import PYTHON_MAGIC_INT

    bad = False
    tmp = tempfile.mkdtemp(prefix="c11bug2-")
    try:
        p = os.path.join(tmp, "x.pyc")
        n = 100 * 1000 * 1000
        with open(p, "wb") as f:
            f.write(struct.pack("<H", PYTHON_MAGIC_INT) + b"\r\n" + b"\0" * 12 + b"(" + struct.pack("<i", n) + b"N" * 40)
        r = run(p, 0)
        grew = (r["after_kb"] - r["before_kb"]) / 1024.0
        print("61-byte file announcing a %d-item tuple: %s; peak RSS grew by %.0f MB" % (n, r["res"], grew))
        if grew > 300:
            bad = True
        src = "/repo/test/bytecode_3.12/02_while1else.py.pyc"
        if PYTHON_MAGIC_INT == 3531 and os.path.exists(src):
            data = bytearray(open(src, "rb").read())
            if data[0x12E] == ord(")"):
                data[0x12E] = ord("(")
                q = os.path.join(tmp, "y.pyc")
                with open(q, "wb") as f:
                    f.write(data)
                r = run(q, 2 << 30)
                print("02_while1else.py.pyc (3.12) with one byte changed, under a 2 GB limit: %s" % r["res"])
                if "MemoryError" in r["res"]:
                    bad = True
    finally:
        shutil.rmtree(tmp, ignore_errors=True)
    if bad:
        print("DEFECT PRESENT: memory use is governed by a count in the file, not by the file's size")
        return 1
    return 0


if __name__ == "__main__":
    sys.exit(main())

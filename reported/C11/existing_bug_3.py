#!/usr/bin/env python
"""EXISTING DEFECT 3 (unchanged library): quadratic stdout flood on the Dropbox path.

xdis/dropbox/decrypt25.py patch() prints, for EVERY opcode byte that is missing from
its substitution table,  "missing opcode N. code: " + repr(str(<the whole bytearray>)).
A Dropbox-2.5 file (magic 62135) whose code string is N bytes of an unmapped opcode
(e.g. 5) therefore makes load_module write ~N * 5N bytes to stdout: a 3 KB file
produces 45 MB, a 100 KB file ~50 GB.  load_module neither "terminates promptly" nor
stays within memory if stdout is captured.

Exit 1 when the blow-up is observed, 0 otherwise.
"""
import os, shutil, struct, subprocess, sys, tempfile

M = 0xFFFFFFFF
DELTA = 0x9E3779B9


def rng(a, b):
    b = ((b << 13) ^ b) & M
    c = b ^ (b >> 17)
    c = c ^ (c << 5)
    return (a * 69069 + c + 0x6611CB3B) & M


def get_keys(a, b):
    ka = rng(a, b); kb = rng(ka, a); kc = rng(kb, ka); kd = rng(kc, kb); ke = rng(kd, kc)
    return (kb, kc, kd, ke)


def MX(z, y, total, key, p, e):
    return ((z >> 5 ^ y << 2) + (y >> 3 ^ z << 4)) ^ ((total ^ y) + (key[(p & 3) ^ e] ^ z))


def tea_encipher(v, key):
    n = len(v)
    for r in range(1, 6 + 52 // n + 1):
        total = r * DELTA
        e = (total >> 2) & 3
        for p in range(n):
            v[p] = (v[p] + MX(v[(p - 1) % n], v[(p + 1) % n], total, key, p, e)) & M
    return v


def i32(n):
    return struct.pack("<i", n)


def s(b):
    return b"s" + i32(len(b)) + b


def dropbox_pyc(co_code):
    empty = b"(" + i32(0)
    plain = i32(0) * 4 + s(co_code) + empty * 5 + s(b"f") + s(b"n") + i32(1) + s(b"")
    a, b = 12345, len(plain)
    pad = (b + 15) & ~0xF
    plain += b"\0" * (pad - b)
    words = tea_encipher(list(struct.unpack("<%dL" % (pad // 4), plain)), get_keys(a, b))
    return struct.pack("<H", 62135) + b"\r\n" + i32(0) + b"c" + i32(a) + i32(b) + struct.pack("<%dL" % (pad // 4), *words)


CHILD = r"""
import sys
from xdis.load import load_module
try:
    r = load_module(sys.argv[1]); sys.stderr.write("RESULT 7-tuple\n")
except ImportError as e:
    sys.stderr.write("RESULT ImportError\n")
"""


def main():
    tmp = tempfile.mkdtemp(prefix="c11bug3-")
    sizes = {}
    try:
        p = os.path.join(tmp, "x.pyc")
        for n in (1000, 3000):
            with open(p, "wb") as f:
                f.write(dropbox_pyc(b"\x05" * n))
            proc = subprocess.Popen([sys.executable, "-c", CHILD, p], stdout=subprocess.PIPE, stderr=subprocess.PIPE)
            total = 0
            while True:
                chunk = proc.stdout.read(1 << 20)
                if not chunk:
                    break
                total += len(chunk)
            err = proc.stderr.read().decode()
            proc.wait()
            sizes[n] = (os.path.getsize(p), total)
            print("code string of %d bytes: file %d bytes -> %d bytes written to stdout (%s)" % (n, sizes[n][0], total, err.strip().splitlines()[-1] if err.strip() else "?"))
    finally:
        shutil.rmtree(tmp, ignore_errors=True)
    if sizes[3000][1] > 1000 * sizes[3000][0] and sizes[3000][1] > 6 * sizes[1000][1]:
        print("DEFECT PRESENT: output grows with the square of the file size (3x the input -> 9x the output)")
        return 1
    return 0


if __name__ == "__main__":
    sys.exit(main())

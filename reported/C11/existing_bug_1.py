#!/usr/bin/env python
"""EXISTING DEFECT 1 (unchanged library): quadratic time in xdis/unmarshal.py t_code for 3.11+ files.

For bytecode >= 3.11, t_code splits co_localsplusnames into co_varnames /
co_cellvars / co_freevars with  `co_varnames += (name,)`  in a loop - each step
copies the whole tuple, so decoding is quadratic in the number of names.  A file
of a few hundred KB (one code object whose localsplusnames tuple holds N one-byte
`None` items and whose localspluskinds is N bytes of 0x20) keeps load_module busy
for minutes; 2 MB -> more than an hour.  "terminates promptly" fails.

Exit 1 when the quadratic behaviour is observed, 0 otherwise.
"""
import contextlib, io, os, shutil, struct, sys, tempfile, time
from xdis.load import load_module
from xdis.magics import PYTHON_MAGIC_INT


def i32(n):
    return struct.pack("<i", n)


def s(b):
    return b"s" + i32(len(b)) + b


def mk(n, magic):
    hdr = struct.pack("<H", magic) + b"\r\n" + b"\0" * 12
    code = b"c" + i32(0) * 5  # argcount, posonlyargcount, kwonlyargcount, stacksize, flags
    code += s(b"") + b")\0" + b")\0"  # code, consts, names
    code += b"(" + i32(n) + b"N" * n  # localsplusnames
    code += s(b"\x20" * n)  # localspluskinds: all CO_FAST_LOCAL
    code += b"z\1f" + b"z\1n" + b"z\1q" + i32(1) + s(b"") + s(b"")
    return hdr + code


def main():
    magic = 3495 if PYTHON_MAGIC_INT != 3495 else 3531  # 3.11 (3.12 when the host is 3.11)
    tmp = tempfile.mkdtemp(prefix="c11bug1-")
    times = {}
    try:
        p = os.path.join(tmp, "x.pyc")
        for n in (30000, 60000):
            with open(p, "wb") as f:
                f.write(mk(n, magic))
            t = time.time()
            with contextlib.redirect_stderr(io.StringIO()):
                r = load_module(p)
            times[n] = time.time() - t
            print("N=%d: file %d bytes, load_module took %.2f s (co_varnames: %d)" % (n, os.path.getsize(p), times[n], len(r[3].co_varnames)))
    finally:
        shutil.rmtree(tmp, ignore_errors=True)
    ratio = times[60000] / max(times[30000], 1e-9)
    print("time ratio for doubling the input: %.1f (linear would be ~2)" % ratio)
    if ratio > 3 and times[60000] > 1.5:
        print("DEFECT PRESENT: decoding time grows quadratically with file size (a 400 KB file needs ~45 s, 2 MB over an hour)")
        return 1
    return 0


if __name__ == "__main__":
    sys.exit(main())

#!/usr/bin/env python
"""EXISTING DEFECT 4 (unchanged library): exponential time on the same-version path.

When the file's magic equals the running interpreter's, load_module uses the C
marshal.loads().  Building a code object there walks nested constant tuples
recursively (to intern strings) without remembering shared sub-tuples, so a
constant T(k) with T(0) = (None, None), T(i) = (T(i-1), <marshal reference to T(i-1)>)
costs 2**k steps although it occupies 9 bytes per level.  A ~420-byte .pyc with
k = 40 keeps load_module busy for hours (k=24: 0.25 s, k=30: 16 s, x2 per level).
(The version-independent decoder in xdis.unmarshal handles the same constant instantly.)

Exit 1 when load_module fails to finish within the time limit, 0 otherwise.
"""
import marshal, os, shutil, struct, subprocess, sys, tempfile

FLAG_REF = 0x80
LIMIT = 20


def i32(n):
    return struct.pack("<i", n)


def dag(k):
    body = bytes([ord(")") | FLAG_REF, 2]) + b"NN"
    for i in range(1, k + 1):
        body = bytes([ord(")") | FLAG_REF, 2]) + body + b"r" + i32(k - i + 1)
    return body


CHILD = r"""
import sys
from xdis.load import load_module
try:
    r = load_module(sys.argv[1]); print("7-tuple")
except ImportError as e:
    print("ImportError")
"""


def main():
    from xdis.magics import PYTHON_MAGIC_INT

    co = compile("x = 'PLACEHOLDER'", "x.py", "exec")
    m = marshal.dumps(co, 2)  # version 2: no references, so the indices above are right
    old = b"u" + i32(11) + b"PLACEHOLDER"
    assert m.count(old) == 1, "unexpected marshal layout"
    tmp = tempfile.mkdtemp(prefix="c11bug4-")
    bad = False
    try:
        for k in (16, 40):
            p = os.path.join(tmp, "x.pyc")
            hdr = struct.pack("<H", PYTHON_MAGIC_INT) + b"\r\n" + (b"\0" * 12 if sys.version_info >= (3, 7) else b"\0" * 8)
            with open(p, "wb") as f:
                f.write(hdr + m.replace(old, dag(k)))
            try:
                out = subprocess.run([sys.executable, "-c", CHILD, p], stdout=subprocess.PIPE, stderr=subprocess.PIPE, timeout=LIMIT).stdout.decode().strip()
                print("k=%d: %d-byte file -> %s" % (k, os.path.getsize(p), out))
            except subprocess.TimeoutExpired:
                print("k=%d: %d-byte file -> load_module still running after %d s" % (k, os.path.getsize(p), LIMIT))
                bad = True
    finally:
        shutil.rmtree(tmp, ignore_errors=True)
    if bad:
        print("DEFECT PRESENT: load_module does not terminate promptly on a tiny file in the running interpreter's own format")
        return 1
    return 0


if __name__ == "__main__":
    sys.exit(main())

"""Existing defect (unchanged library): codeType2Portable() refuses native code
objects whose fields hold *subclasses* of str / tuple, although CPython accepts
them (code.replace(co_name=StrSubclass("f")) is a perfectly good native code
object).  The portable constructors' check() insists on the exact type and the
failure escapes as a bare AssertionError, so the round trip is impossible.
"""
import sys
from xdis.codetype import codeType2Portable


class S(str):
    pass


class T(tuple):
    pass


def f(a, b=2):
    return [a, b, len]


bad = 0
base = f.__code__
cases = [
    ("co_name", S("f")),
    ("co_filename", S("somewhere.py")),
    ("co_consts", T(base.co_consts)),
    ("co_names", T(base.co_names)),
]
for field, value in cases:
    try:
        native = base.replace(**{field: value})
    except Exception as e:  # host would not build it: not our case
        print("host refused", field, e)
        continue
    if type(getattr(native, field)) is not type(value):
        continue  # host normalised it, nothing to test
    try:
        back = codeType2Portable(native).to_native()
    except BaseException as e:
        bad += 1
        print("%s=%s(...): %s: %s" % (field, type(value).__name__, type(e).__name__, e))
        continue
    if getattr(back, field) != getattr(native, field):
        bad += 1
        print(field, "differs")
if bad:
    print("BUG PRESENT: %d native code object(s) could not make the round trip" % bad)
    sys.exit(1)
print("no bug")

"""Existing defect (unchanged library): Code13.replace() (inherited by all
portable code types) validates keywords with hasattr(self, field), so any
attribute name - methods included - is accepted instead of raising TypeError as
types.CodeType.replace does; the copy is then broken (to_native() dies calling
an int).  And for a really unknown name the TypeError message interpolates the
code object where the field name was meant.
"""
import sys
from xdis.codetype import codeType2Portable


def f():
    return 1


bad = 0
p = codeType2Portable(f.__code__)
for bogus in ("check", "freeze", "fieldtypes", "to_native"):
    try:
        f.__code__.replace(**{bogus: 5})
        host_rejects = False
    except TypeError:
        host_rejects = True
    try:
        q = p.replace(**{bogus: 5})
    except TypeError:
        continue
    bad += 1
    print("replace(%s=5) accepted (host code.replace rejects it: %s)" % (bogus, host_rejects))
    if bogus == "check":
        try:
            q.to_native()
        except Exception as e:
            print("   ... and the copy is unusable: to_native() -> %s: %s" % (type(e).__name__, e))
try:
    p.replace(co_nosuchfield=1)
except TypeError as e:
    if "co_nosuchfield" not in str(e):
        bad += 1
        print("error message does not name the bad field:", e)
if bad:
    print("BUG PRESENT")
    sys.exit(1)
print("no bug")

"""Existing defect (unchanged library): to_native() works on deepcopy(self), so
every constant that copy.deepcopy does not treat as atomic is *copied*.  For a
native code object carrying such a constant (bytecode tools put lists, sets or
arbitrary objects into co_consts with code.replace) the round-tripped code
object holds a different object and, for constants CPython compares by
identity, is no longer equal to the original.
"""
import sys
from xdis.codetype import codeType2Portable


def f():
    return None


marker = [1, 2]          # a mutable constant, compared by identity in code.__eq__
class Token:             # an arbitrary object constant
    pass
tok = Token()

native = f.__code__.replace(co_consts=(None, marker, tok))
back = codeType2Portable(native).to_native()

bad = 0
if back.co_consts[1] is not marker:
    bad += 1
    print("list constant was copied: id %x -> %x" % (id(marker), id(back.co_consts[1])))
if back.co_consts[2] is not tok:
    bad += 1
    print("object constant was copied:", tok, "->", back.co_consts[2])
if back.co_consts != native.co_consts:
    bad += 1
    print("co_consts differ:", native.co_consts, back.co_consts)
if back != native:
    bad += 1
    print("round-tripped code object != original")
if bad:
    print("BUG PRESENT")
    sys.exit(1)
print("no bug")

"""Existing defect (unchanged library): portableCodeType(v) and the class that
codeType2Portable()/to_portable() actually build disagree for Python 1.3.x and
1.4: portableCodeType uses `v <= (1, 3)` (so (1, 3, 0) and (1, 4) give Code15)
while codeType2Portable uses `v < (1, 5)` (Code13).  "The portable type chosen
is the one for the version" therefore fails for these bytecode versions (not a
host version, hosts are 3.8+).
"""
import sys
from xdis.codetype import portableCodeType, to_portable

bad = 0
for v in [(1, 0), (1, 3), (1, 3, 0), (1, 4), (1, 4, 0), (1, 5), (1, 5, 2), (2, 0), (2, 0, 1), (2, 7, 18)]:
    built = type(
        to_portable(
            0, co_nlocals=0, co_stacksize=0, co_flags=0, co_code=b"", co_consts=(),
            co_names=(), co_varnames=(), co_filename="", co_name="", co_firstlineno=1,
            co_lnotab=b"", co_freevars=(), co_cellvars=(), version_triple=v,
        )
    )
    said = portableCodeType(v)
    if built is not said:
        bad += 1
        print("version %s: portableCodeType says %s, codeType2Portable builds %s" % (v, said.__name__, built.__name__))
if bad:
    print("BUG PRESENT")
    sys.exit(1)
print("no bug")

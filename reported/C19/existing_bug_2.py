#!/usr/bin/env python
"""EXISTING DEFECT (unpatched xdis): Code311 (3.11, 3.12, 3.13 code objects)
inherits freeze()/encode_lineno_tab() from Code310, so a line table supplied
as an {offset: line} mapping is written in the *3.10* format, while
Code311.co_lines() -- and CPython 3.11+ -- read co_linetable in the 3.11
location-table format.  The frozen table decodes to (almost) nothing.

Exits 1 and prints the evidence when the bug is present.
"""
import json
import os
import subprocess
import sys

from xdis.codetype.code311 import Code311
from xdis.op_imports import get_opcode_module

PY311 = "/root/.pyenv/versions/3.11.7/bin/python"
CODE_LEN = 40

SNIP = r"""
import dis, json, sys
first, table_hex, n = json.loads(sys.argv[1])
co = (lambda: None).__code__.replace(co_code=bytes([9, 0] * (n // 2)),
        co_firstlineno=first, co_linetable=bytes.fromhex(table_hex))
try:
    print(json.dumps(list(dis.findlinestarts(co))))
except Exception as e:
    print(json.dumps(repr(e)))
"""


def main():
    rc = 0
    for version in ((3, 11), (3, 12), (3, 13)):
        mapping = {0: 1, 4: 2, 8: 3}
        code = Code311(
            co_argcount=0, co_posonlyargcount=0, co_kwonlyargcount=0,
            co_nlocals=0, co_stacksize=1, co_flags=0, co_consts=(None,),
            co_code=bytes([9, 0] * (CODE_LEN // 2)), co_names=(),
            co_varnames=(), co_freevars=(), co_cellvars=(),
            co_filename="<c19>", co_name="f", co_qualname="f",
            co_firstlineno=1, co_linetable=dict(mapping), co_exceptiontable=b"",
        ).freeze()
        try:
            got = dict(get_opcode_module(version).findlinestarts(code))
        except Exception as e:  # pragma: no cover
            got = repr(e)
        print("%d.%d: supplied %s -> co_linetable %s -> xdis findlinestarts %s"
              % (version[0], version[1], mapping, code.co_linetable.hex(), got))
        if got != mapping:
            rc = 1
    if rc and os.path.exists(PY311):
        out = subprocess.check_output(
            [PY311, "-c", SNIP, json.dumps([1, code.co_linetable.hex(), CODE_LEN])]
        )
        print("CPython 3.11 reading of that table:", json.loads(out.decode()))
    if rc:
        print("BUG: Code311.freeze() wrote a 3.10-format table into a 3.11+ code object")
    else:
        print("ok")
    return rc


if __name__ == "__main__":
    sys.exit(main())

#!/usr/bin/env python
"""EXISTING DEFECT (unpatched xdis): Code15.decode_lineno_tab() (inherited by
Code2; the class's own inverse of encode_lineno_tab()) cannot decode any
non-empty table on Python 3 -- the only hosts xdis imports on.

  * bytes table: elements are ints and the code does ``ord(offset_diff)`` when
    ``isinstance(offset_diff, int)`` -> TypeError;
  * str table (what Code15.freeze() itself produces): the int branch is
    skipped, so ``assert offset_diff < 256`` compares a str with an int
    -> TypeError.

Independently of the crash, the routine ``continue``s on an address increment
of 255 without adding it, which is exactly the continuation entry (255, 0)
encode_lineno_tab() emits for gaps beyond 255 bytes.

Exits 1 and prints the evidence when the bug is present.
"""
import sys

from xdis.codetype.code20 import Code2


def make(table):
    return Code2(
        co_argcount=0, co_nlocals=0, co_stacksize=1, co_flags=0,
        co_code=bytes(700), co_consts=(None,), co_names=(), co_varnames=(),
        co_filename="<c19>", co_name="f", co_firstlineno=1, co_lnotab=table,
        co_freevars=(), co_cellvars=(),
    )


def main():
    rc = 0
    mapping = {0: 1, 4: 2, 300: 3}
    frozen = make(dict(mapping)).freeze()
    for label, code in (
        ("freeze() output (str)", frozen),
        ("same table as bytes", make(frozen.co_lnotab.encode("latin-1"))),
    ):
        raw = code.co_lnotab
        try:
            code.decode_lineno_tab()
            got = code.co_lnotab
        except Exception as e:
            got = "raises %r" % (e,)
        print("%-22s %r -> %s" % (label, raw, got))
        if got != mapping:
            rc = 1
    if rc:
        print("BUG: decode_lineno_tab() does not give back", mapping)
    else:
        print("ok")
    return rc


if __name__ == "__main__":
    sys.exit(main())

#!/usr/bin/env python
"""EXISTING DEFECT (unpatched xdis): Code310.encode_lineno_tab() / freeze()
shift the whole line table towards offset 0 when the first entry of the
supplied {offset: line} mapping is not at offset 0.

A 3.10 line table is a list of consecutive ranges starting at offset 0; the
encoder emits one range per mapping entry, starting with the first entry, and
never emits a leading range (length = first offset, "no line" delta -128) for
the bytes before it.  So {4: 5, 8: 6} is encoded as if it were {0: 5, 4: 6}.
The lnotab encoders (Code2/Code3/Code38) keep the offsets for the same input.

Exits 1 and prints the evidence when the bug is present.
"""
import json
import os
import subprocess
import sys

from xdis.codetype.code310 import Code310
from xdis.op_imports import get_opcode_module

PY310 = "/root/.pyenv/versions/3.10.13/bin/python"
CODE_LEN = 40

SNIP = r"""
import dis, json, sys
first, table_hex, n = json.loads(sys.argv[1])
co = (lambda: None).__code__.replace(co_code=bytes([9, 0] * (n // 2)),
        co_firstlineno=first, co_linetable=bytes.fromhex(table_hex))
print(json.dumps(list(dis.findlinestarts(co))))
"""


def main():
    mapping = {4: 5, 8: 6, 20: 9}
    code = Code310(
        co_argcount=0, co_posonlyargcount=0, co_kwonlyargcount=0, co_nlocals=0,
        co_stacksize=1, co_flags=0, co_code=bytes([9, 0] * (CODE_LEN // 2)),
        co_consts=(None,), co_names=(), co_varnames=(), co_filename="<c19>",
        co_name="f", co_firstlineno=1, co_linetable=dict(mapping),
        co_freevars=(), co_cellvars=(),
    ).freeze()
    got = dict(get_opcode_module((3, 10)).findlinestarts(code))
    ref = None
    if os.path.exists(PY310):
        out = subprocess.check_output(
            [PY310, "-c", SNIP, json.dumps([1, code.co_linetable.hex(), CODE_LEN])]
        )
        ref = {int(k): v for k, v in json.loads(out.decode())}
    print("supplied mapping        :", mapping)
    print("encoded co_linetable    :", code.co_linetable.hex())
    print("xdis 3.10 findlinestarts:", got)
    print("CPython 3.10 decoding   :", ref)
    if got != mapping:
        print("BUG: offsets moved; every line start is %d bytes too early" % min(mapping))
        return 1
    print("ok")
    return 0


if __name__ == "__main__":
    sys.exit(main())

#!/usr/bin/env python
"""Existing defect (unchanged library): operand-carrying opcodes of Python 2.x.

Python 2.7 has no dis.stack_effect(); the interpreter's own numbers are
Python/compile.c's opcode_stack_effect(), observable through co_stacksize.
The real 2.7 interpreter compiles small straight-line functions (no jumps, so
the maximal stack depth is simply the largest prefix sum of the per-instruction
effects) and reports co_code and co_stacksize.  Summing xdis' xstack_effect()
over the same instructions must reach the same maximum; it does not, because
for 2.x

    UNPACK_SEQUENCE n  xdis: 1 - n   compile.c: n - 1
    DUP_TOPX n         xdis: 1 - n   compile.c: n
    CALL_FUNCTION n    xdis: 1 - n   compile.c: -NARGS(n)
    MAKE_FUNCTION n    xdis: 1 - n   compile.c: -n
    RAISE_VARARGS n    xdis: 1 - n   compile.c: -n
    MAKE_CLOSURE n     xdis: -100    compile.c: -n - 1

exit 1 when differences are present, 0 otherwise.
"""
import json
import os
import subprocess
import sys

from xdis.cross_dis import unpack_opargs_bytecode, xstack_effect
from xdis.op_imports import get_opcode_module

PY27 = "/root/.pyenv/versions/2.7.18/bin/python"
PROBE = r"""
import json
srcs = {
 "unpack": "def f(x):\n    a, b, c, d, e = x\n",
 "call0": "def f():\n    g()\n",
 "dup_topx": "def f(a, b):\n    a[b] += 1\n",
 "make_function": "def f():\n    def g(p=1, q=2, r=3): pass\n",
}
out = {}
for name, src in sorted(srcs.items()):
    ns = {}
    exec(compile(src, "<probe>", "exec"), ns)
    co = ns["f"].__code__
    out[name] = [co.co_code.encode("hex"), co.co_stacksize]
print(json.dumps(out))
"""

if not os.path.exists(PY27):
    print("no Python 2.7 interpreter to compare with")
    sys.exit(2)
env = dict(os.environ)
env.pop("PYTHONPATH", None)
rows = json.loads(subprocess.check_output([PY27, "-c", PROBE], env=env, cwd="/var/tmp"))
opc = get_opcode_module((2, 7, 0), "")
bad = []
for name, (code_hex, stacksize) in sorted(rows.items()):
    code = bytes(bytearray.fromhex(code_hex))
    depth = maxdepth = 0
    trace = []
    for offset, op, arg in unpack_opargs_bytecode(code, opc):
        assert op not in opc.JUMP_OPS, "probe is meant to be straight-line code"
        effect = xstack_effect(op, opc) if arg is None else xstack_effect(op, opc, arg)
        depth += effect
        maxdepth = max(maxdepth, depth)
        trace.append("%s%s:%+d" % (opc.opname[op], "" if arg is None else " %d" % arg, effect))
    if maxdepth != stacksize:
        bad.append("%s: max depth by xdis effects %d, co_stacksize of CPython 2.7 %d\n      %s"
                   % (name, maxdepth, stacksize, ", ".join(trace)))
if bad:
    print("xdis' 2.7 stack effects do not reproduce the interpreter's co_stacksize:")
    for line in bad:
        print("  " + line)
    sys.exit(1)
print("no difference")
sys.exit(0)

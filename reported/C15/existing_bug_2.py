#!/usr/bin/env python
"""Existing defect (unchanged library): call-like opcodes of Python 3.4 / 3.5.

No 3.4/3.5 interpreter is installed here, so the expected values are the
formulas of CPython 3.5's Python/compile.c, PyCompile_OpcodeStackEffect()
(which is what dis.stack_effect() of 3.4/3.5 calls):

    #define NARGS(o) (((o) % 256) + 2*(((o) / 256) % 256))
    CALL_FUNCTION:                  -NARGS(oparg)
    CALL_FUNCTION_VAR / _KW:        -NARGS(oparg) - 1
    CALL_FUNCTION_VAR_KW:           -NARGS(oparg) - 2
    MAKE_FUNCTION:                  -1 - NARGS(oparg) - ((oparg >> 16) & 0xffff)
    MAKE_CLOSURE:                   -2 - NARGS(oparg) - ((oparg >> 16) & 0xffff)
    BUILD_MAP_UNPACK_WITH_CALL:     1 - (oparg & 0xFF)            (3.5 only)

xdis treats the operand of the CALL_FUNCTION family as a plain count (so a
keyword argument, encoded as 256, counts as 256 stack items instead of 2),
has a 3.6-style flag table for 3.5's MAKE_FUNCTION (wrong from oparg 3 on,
None above 10), and does not mask BUILD_MAP_UNPACK_WITH_CALL's operand.

exit 1 when differences are present, 0 otherwise.
"""
import sys

from xdis.cross_dis import xstack_effect
from xdis.op_imports import get_opcode_module


def nargs(o):
    return (o % 256) + 2 * ((o // 256) % 256)


EXPECT = {
    "CALL_FUNCTION": lambda o: -nargs(o),
    "CALL_FUNCTION_VAR": lambda o: -nargs(o) - 1,
    "CALL_FUNCTION_KW": lambda o: -nargs(o) - 1,
    "CALL_FUNCTION_VAR_KW": lambda o: -nargs(o) - 2,
    "MAKE_FUNCTION": lambda o: -1 - nargs(o) - ((o >> 16) & 0xFFFF),
    "MAKE_CLOSURE": lambda o: -2 - nargs(o) - ((o >> 16) & 0xFFFF),
}
# f(a, k=1) -> 257; f(k=1) -> 256; def f(a=1, b=2, c=3) -> 3;
# def f(*, k=1) -> 256; def f(a: int) -> 1 << 16 (+ the names tuple)
ARGS = [0, 1, 2, 3, 4, 11, 256, 257, 513, 1 << 16, (1 << 16) + 257]

bad = []
for version in ((3, 4), (3, 5)):
    opc = get_opcode_module(version + (0,), "")
    expect = dict(EXPECT)
    if version == (3, 5):
        expect["BUILD_MAP_UNPACK_WITH_CALL"] = lambda o: 1 - (o & 0xFF)
    for name, fn in sorted(expect.items()):
        op = opc.opmap[name]
        args = ARGS if name != "BUILD_MAP_UNPACK_WITH_CALL" else [2, 258, 513]
        for arg in args:
            got = xstack_effect(op, opc, arg)
            if got != fn(arg):
                bad.append("%d.%d %s(%d) oparg=%d: xdis %r, CPython %r"
                           % (version[0], version[1], name, op, arg, got, fn(arg)))
if bad:
    print("%d stack effects differ from CPython 3.4/3.5's compile.c:" % len(bad))
    for line in bad:
        print("  " + line)
    sys.exit(1)
print("no difference")
sys.exit(0)

#!/usr/bin/env python
"""Existing defect (unchanged library): BUILD_MAP with an operand >= 2**30.

CPython 3.5-3.11 compute the BUILD_MAP stack effect as the C int
expression 1 - 2*oparg.  An operand of 2**31-1 (which the opcode can carry
with three EXTENDED_ARG prefixes) wraps around in C and dis.stack_effect()
returns 3; xdis.cross_dis.xstack_effect() uses unbounded Python ints and
returns -4294967293.

exit 1 when the difference is present, 0 otherwise.
"""
import json
import os
import subprocess
import sys

from xdis.cross_dis import xstack_effect
from xdis.op_imports import get_opcode_module

INTERPRETERS = {
    (3, 6): "/root/.pyenv/versions/3.6.15/bin/python",
    (3, 7): "/root/.pyenv/versions/3.7.16/bin/python",
    (3, 8): "/root/.pyenv/versions/3.8.18/bin/python",
    (3, 9): "/root/.pyenv/versions/3.9.18/bin/python",
    (3, 10): "/root/.pyenv/versions/3.10.13/bin/python",
    (3, 11): "/root/.pyenv/versions/3.11.7/bin/python",
}
ARGS = [(1 << 30) - 1, 1 << 30, (1 << 30) + 2, (1 << 31) - 2, (1 << 31) - 1]
PROBE = (
    "import dis, json\n"
    "op = dis.opmap['BUILD_MAP']\n"
    "out = []\n"
    "for a in %r:\n"
    "    try:\n"
    "        out.append([op, a, dis.stack_effect(op, a)])\n"
    "    except (ValueError, OverflowError):\n"
    "        out.append([op, a, None])\n"
    "print(json.dumps(out))\n" % (ARGS,)
)

env = dict(os.environ)
env.pop("PYTHONPATH", None)
bad = []
for version, exe in sorted(INTERPRETERS.items()):
    if not os.path.exists(exe):
        continue
    rows = json.loads(subprocess.check_output([exe, "-c", PROBE], env=env, cwd="/var/tmp"))
    opc = get_opcode_module(version + (0,), "")
    for op, arg, expected in rows:
        if expected is None:  # CPython rejects the combination: anything goes
            continue
        got = xstack_effect(op, opc, arg)
        if got != expected:
            bad.append("%d.%d BUILD_MAP(%d) oparg=%d: xdis %r, CPython dis.stack_effect %r"
                       % (version[0], version[1], op, arg, got, expected))
if bad:
    print("xstack_effect differs from CPython's dis.stack_effect:")
    for line in bad:
        print("  " + line)
    sys.exit(1)
print("no difference")
sys.exit(0)

#!/usr/bin/env python
"""EXISTING DEFECT (unchanged library): FOR_LOOP (114) is not a relative jump
in the Python 1.0 - 2.2 opcode tables.

CPython 1.5 .. 2.2 (Lib/dis.py, where the opcode tables lived before 2.3 made
Lib/opcode.py out of them) declare

    jrel_op('FOR_LOOP', 114)        # Number of bytes to skip

i.e. 114 is in hasjrel.  xdis declares it with plain def_op() in
xdis/opcodes/opcode_1x.py (line ~168) and xdis/opcodes/opcode_22.py (line ~25),
so FOR_LOOP is in none of hasjrel / JREL_OPS / JUMP_OPS for 1.0-1.6 and
2.0-2.2, and findlabels() never reports the loop-exit target.

Evidence printed below:
 1. table check for every affected version;
 2. structural evidence from genuine old .pyc files shipped in the source tree
    (test/bytecode_1.5, 2.1, 2.2 ...): for each FOR_LOOP at offset o with
    operand a, o+3+a is an instruction boundary holding POP_BLOCK and the
    instruction just before it is the loop's back edge JUMP_ABSOLUTE o (or o-3,
    the SET_LINENO in front of the FOR_LOOP) - which
    is what a relative jump 'a bytes forward' means - yet xdis' findlabels()
    does not list that target;
 3. a hand-assembled 1.5 loop, for trees without the sample files.
Exit status 1 = defect present.
"""
import glob
import os
import sys

import xdis
from xdis.op_imports import get_opcode_module
from xdis.disasm import get_opcode

problems = []

VERSIONS = [(1, 0), (1, 1), (1, 3), (1, 4), (1, 5), (1, 6), (2, 0), (2, 1), (2, 2)]
for v in VERSIONS:
    opc = get_opcode(v, False)
    num = opc.opmap.get("FOR_LOOP")
    if num != 114:
        problems.append("%d.%d: FOR_LOOP is %r" % (v[0], v[1], num))
        continue
    where = [f for f in ("hasjrel", "JREL_OPS", "JUMP_OPS") if num in getattr(opc, f)]
    if "hasjrel" not in where or "JREL_OPS" not in where:
        problems.append(
            "%d.%d: FOR_LOOP (114) in %r; CPython: jrel_op('FOR_LOOP', 114) => hasjrel"
            % (v[0], v[1], where)
        )


def walk(code, opc):
    """old-style (1 or 3 byte) instruction walk: (offset, op, arg, next)"""
    i, n = 0, len(code)
    while i < n:
        op = code[i]
        if op >= opc.HAVE_ARGUMENT:
            yield i, op, code[i + 1] | (code[i + 2] << 8), i + 3
            i += 3
        else:
            yield i, op, None, i + 1
            i += 1


def as_bytes(co_code):
    if isinstance(co_code, str):
        return co_code.encode("latin-1")
    return bytes(co_code)


def examine(code, opc, label):
    insts = list(walk(code, opc))
    by_off = dict((o, (op, arg)) for o, op, arg, _ in insts)
    prev = {}
    last = None
    for o, op, arg, nxt in insts:
        prev[o] = last
        last = o
    labels = set(opc.findlabels(code, opc))
    FOR_LOOP = opc.opmap["FOR_LOOP"]
    total = shaped = missed = onb = 0
    for o, op, arg, nxt in insts:
        if op != FOR_LOOP:
            continue
        total += 1
        t = nxt + arg
        ok = (
            t in by_off
            and opc.opname[by_off[t][0]] == "POP_BLOCK"
            and prev.get(t) is not None
            and opc.opname[by_off[prev[t]][0]] == "JUMP_ABSOLUTE"
            # the back edge goes to the FOR_LOOP itself or to the SET_LINENO
            # that the 1.x/2.x compiler puts right in front of it
            and by_off[prev[t]][1] in (o, o - 3)
        )
        shaped += ok
        onb += t in by_off
        if t not in labels:
            missed += 1
    return total, shaped, missed, onb


def codes(co):
    yield co
    for c in co.co_consts:
        if xdis.iscode(c):
            for x in codes(c):
                yield x


# 2. genuine sample files, when the tree has them
root = os.path.join(os.path.dirname(os.path.dirname(os.path.abspath(xdis.__file__))), "test")
tot = shp = mis = files = bnd = 0
for d in ("bytecode_1.0", "bytecode_1.3", "bytecode_1.4", "bytecode_1.5", "bytecode_1.6", "bytecode_2.1", "bytecode_2.2"):
    for f in sorted(glob.glob(os.path.join(root, d, "*.py[co]"))):
        try:
            from xdis.load import load_module

            vt, _, _, co, pypy = load_module(f)[:5]
            opc = get_opcode(tuple(vt[:2]), pypy)
            if "FOR_LOOP" not in opc.opmap:
                continue
            for c in codes(co):
                a, b, m, k = examine(as_bytes(c.co_code), opc, f)
                bnd += k
                tot += a
                shp += b
                mis += m
            files += 1
        except Exception as e:
            print("(skipped %s: %r)" % (f, e))
if tot:
    print(
        "sample files: %d files, %d FOR_LOOP instructions; offset+3+operand is an instruction "
        "boundary for %d of them; %d of them have operand == distance "
        "to the POP_BLOCK that follows their back edge (relative jump); findlabels() misses "
        "the target of %d of them" % (files, tot, bnd, shp, mis)
    )
    if mis:
        problems.append(
            "findlabels() does not report the FOR_LOOP exit target for %d of %d FOR_LOOPs in "
            "genuine 1.x/2.x sample files" % (mis, tot)
        )

# 3. hand-assembled Python 1.5 loop:  for x in s: pass
opc = get_opcode((1, 5), False)
m = opc.opmap
code = bytes(
    [
        m["SETUP_LOOP"], 19, 0,      #  0 -> 22
        m["LOAD_NAME"], 0, 0,        #  3
        m["LOAD_CONST"], 0, 0,       #  6
        m["FOR_LOOP"], 6, 0,         #  9 -> 18 (12 + 6)
        m["STORE_NAME"], 1, 0,       # 12
        m["JUMP_ABSOLUTE"], 9, 0,    # 15
        m["POP_BLOCK"],              # 18
        m["LOAD_CONST"], 1, 0,       # 19
        m["RETURN_VALUE"],           # 22
    ]
)
labels = sorted(opc.findlabels(code, opc))
print("hand-assembled 1.5 loop: findlabels ->", labels, "(CPython 1.5 dis.findlabels -> [9, 18, 22])")
if 18 not in labels:
    problems.append("hand-assembled 1.5 loop: FOR_LOOP target 18 missing from findlabels %r" % (labels,))

if problems:
    print("EXISTING DEFECT CONFIRMED (C09: relative-jump category differs from CPython):")
    for p in problems:
        print("  " + p)
    sys.exit(1)
print("FOR_LOOP is categorised as a relative jump everywhere")
sys.exit(0)

#!/usr/bin/env python
"""EXISTING DEFECT (unchanged library): one use of an alternate opmap rewrites the
shared opcode table for that version for the rest of the process.

xdis/op_imports.py remap_opcodes(op_obj, alternate_opmap) is what
xdis.disasm.get_opcode(version, is_pypy, alternate_opmap) (and therefore
disassemble_file(..., alternate_opmap=...)) uses for shuffled-opcode bytecode.
It deep-copies the lists it edits, but then setattr()s every result - opmap,
opname, oppop/oppush, the has* lists, every *_OPS frozenset, HAVE_ARGUMENT,
PJIF/PJIT and the per-opcode constants - back onto op_obj, and op_obj is the
module object stored in op_imports[...], i.e. THE table for that version.

So the sequence
    get_opcode((3, 8), False, {"LOAD_CONST": 101, "LOAD_NAME": 100})
    get_opcode((3, 8), False)            # or get_opcode_module((3, 8))
hands out, in the second call, a "CPython 3.8" table in which LOAD_CONST is 101,
LOAD_NAME is 100, hasconst/CONST_OPS = {101}, hasname contains 100 - which is
not what CPython 3.8's opcode module says.  Expected: the second call returns
the pristine 3.8 table (remapping should work on a copy).

Ground truth: /root/.pyenv/versions/3.8.18/bin/python -c 'import opcode ...'
(falls back to the table's own state before the remap if that interpreter is
missing).  Exit status 1 = defect present.
"""
import json
import os
import subprocess
import sys

from xdis.disasm import get_opcode
from xdis.op_imports import get_opcode_module

VERSION = (3, 8)
FIELDS = "hasjrel hasjabs hasconst hasname haslocal hasfree hascompare".split()


def snapshot(opc):
    d = {"opmap": dict(opc.opmap), "HAVE_ARGUMENT": opc.HAVE_ARGUMENT, "EXTENDED_ARG": opc.EXTENDED_ARG}
    for f in FIELDS:
        d[f] = sorted(set(getattr(opc, f)))
    d["CONST_OPS"] = sorted(opc.CONST_OPS)
    d["NAME_OPS"] = sorted(opc.NAME_OPS)
    d["opname"] = [n for n in opc.opname]
    return d


def cpython_truth():
    exe = "/root/.pyenv/versions/3.8.18/bin/python"
    if not os.path.exists(exe):
        return None
    dump = (
        "import opcode, json;"
        "d={'opmap': opcode.opmap, 'HAVE_ARGUMENT': opcode.HAVE_ARGUMENT, 'EXTENDED_ARG': opcode.EXTENDED_ARG};"
        "[d.__setitem__(f, sorted(getattr(opcode, f))) for f in %r];"
        "print(json.dumps(d))" % (FIELDS,)
    )
    env = dict(os.environ)
    env.pop("PYTHONPATH", None)
    out = subprocess.check_output([exe, "-c", dump], env=env, stderr=subprocess.DEVNULL)
    return json.loads(out.decode().strip().splitlines()[-1])


before = snapshot(get_opcode(VERSION, False))
truth = cpython_truth() or before

problems = []
for k in ["opmap", "HAVE_ARGUMENT", "EXTENDED_ARG"] + FIELDS:
    if before[k] != truth[k]:
        problems.append("before any remap the 3.8 table already differs from CPython in %s" % k)

# step 1: somebody disassembles one file with shuffled opcodes
remapped = get_opcode(VERSION, False, {"LOAD_CONST": 101, "LOAD_NAME": 100})

# step 2: everybody else asks for the ordinary 3.8 table
for how, opc in (
    ("get_opcode((3, 8), False)", get_opcode(VERSION, False)),
    ("get_opcode_module((3, 8), '')", get_opcode_module(VERSION, "")),
):
    after = snapshot(opc)
    for k in ["opmap", "HAVE_ARGUMENT", "EXTENDED_ARG"] + FIELDS:
        if after[k] != truth[k]:
            if k == "opmap":
                diff = sorted(set(after[k].items()) ^ set(truth[k].items()))
                problems.append("%s after a remap: opmap differs from CPython 3.8: %r" % (how, diff))
            else:
                problems.append(
                    "%s after a remap: %s = %r, CPython 3.8 has %r" % (how, k, after[k], truth[k])
                )
    for k in ("CONST_OPS", "NAME_OPS"):
        if after[k] != before[k]:
            problems.append("%s after a remap: %s = %r, was %r" % (how, k, after[k], before[k]))
    if getattr(opc, "LOAD_CONST", None) != truth["opmap"]["LOAD_CONST"]:
        problems.append("%s after a remap: module constant LOAD_CONST = %r" % (how, getattr(opc, "LOAD_CONST", None)))
    if opc is remapped:
        problems.append("%s returns the very object that was remapped (REMAPPED=%r)" % (how, getattr(opc, "REMAPPED", None)))

if problems:
    print("EXISTING DEFECT CONFIRMED: remap_opcodes() edits the shared per-version table in place")
    for p in problems:
        print("  " + p)
    sys.exit(1)
print("the ordinary 3.8 table is untouched by a remap")
sys.exit(0)

#!/usr/bin/env python
"""EXISTING DEFECT (unchanged library), adjacent to C09: the 3.12 `hasexc`
category is wrong and EXC_OPS is built from the wrong list.

 * xdis/opcodes/opcode_312.py:  loc.update({"hasexc": [264, 265, 266]})
   CPython 3.12: opcode.hasexc == [256, 257, 258]  (SETUP_FINALLY, SETUP_CLEANUP,
   SETUP_WITH); 264-266 are LOAD_ZERO_SUPER_METHOD, LOAD_ZERO_SUPER_ATTR,
   STORE_FAST_MAYBE_NULL.
 * xdis/opcodes/base.py update_sets():  loc["EXC_OPS"] = frozenset(loc["hasarg"])
   (copy/paste of the line above it; should be loc["hasexc"]), so for 3.12 and
   3.13 EXC_OPS is the set of all opcodes that take an argument.

hasexc/hasarg are not among the seven categories C09 names, but they are part of
"the same operand categories as that CPython's opcode module".  Ground truth
comes from the pyenv 3.12.1 / 3.13.0 interpreters.  Exit status 1 = defect present.
"""
import json
import os
import subprocess
import sys

from xdis.op_imports import get_opcode_module

problems = []
for version, full in (((3, 12), "3.12.1"), ((3, 13), "3.13.0")):
    exe = "/root/.pyenv/versions/%s/bin/python" % full
    opc = get_opcode_module(version, "")
    tag = "%d.%d" % version
    if os.path.exists(exe):
        env = dict(os.environ)
        env.pop("PYTHONPATH", None)
        out = subprocess.check_output(
            [exe, "-c", "import opcode, json; print(json.dumps({'hasexc': sorted(opcode.hasexc), 'hasarg': sorted(opcode.hasarg)}))"],
            env=env, stderr=subprocess.DEVNULL,
        )
        truth = json.loads(out.decode().strip().splitlines()[-1])
        for f in ("hasexc", "hasarg"):
            mine = sorted(set(getattr(opc, f)))
            if mine != truth[f]:
                problems.append(
                    "%s: %s only-xdis %r only-CPython %r"
                    % (tag, f,
                       [(o, opc.opname[o]) for o in mine if o not in truth[f]],
                       [(o, opc.opname[o]) for o in truth[f] if o not in mine])
                )
    if set(opc.EXC_OPS) != set(opc.hasexc):
        problems.append(
            "%s: EXC_OPS has %d members and equals frozenset(hasarg): %r; hasexc is %r"
            % (tag, len(opc.EXC_OPS), set(opc.EXC_OPS) == set(opc.hasarg), sorted(opc.hasexc))
        )

if problems:
    print("EXISTING DEFECT CONFIRMED:")
    for p in problems:
        print("  " + p)
    sys.exit(1)
print("hasexc / EXC_OPS fine")
sys.exit(0)

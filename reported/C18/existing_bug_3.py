#!/usr/bin/env python
"""EXISTING DEFECT 3 (unchanged library): state that outlives a load.

xdis.unmarshal.load_code(fp, magic_int, bytes_for_s=False, code_objects={}) has a
mutable default dict which it hands to the unmarshaller, and t_code() does
self.code_objects[str(code)] = code  for every code object read.  xdis.load.load_module_from_file_object() calls
    xdis.unmarshal.load_code(fp, magic_int, code_objects)
i.e. passes the caller's dict positionally as *bytes_for_s*, so
  (a) the dict handed to load_module(filename, code_objects=d) is never filled, and
  (b) every code object of every file ever loaded is recorded in (and kept alive
      by) the shared default dict: per-call unmarshaller state leaks into a
      module-level table that grows for the life of the process.
No result is read back from that table today, so listings are not affected; it
is the leak itself (and the dead parameter) that is shown here.

Exit 1 + evidence when the defect is present, 0 otherwise.
"""
import os
import shutil
import struct
import sys
import tempfile

import xdis.unmarshal
from xdis.load import load_module


def s(b):
    return b"s" + struct.pack("<i", len(b)) + b


def tup(items):
    return b"(" + struct.pack("<i", len(items)) + b"".join(items)


def code2(argcount, nlocals, stacksize, flags, code, consts, names, varnames, name):
    return (
        b"c" + struct.pack("<iiii", argcount, nlocals, stacksize, flags)
        + s(code) + tup(consts) + tup(names) + tup(varnames) + tup([]) + tup([])
        + s(b"m.py") + s(name) + struct.pack("<i", 1) + s(b"")
    )


def main():
    tmp = tempfile.mkdtemp(prefix="c18bug3-")
    try:
        f = code2(1, 1, 1, 0x43, b"\x7c\x00\x00\x53", [b"N"], [], [s(b"x")], b"f")
        mod = b"\x64\x00\x00\x84\x00\x00\x5a\x00\x00\x64\x01\x00\x53"
        co = code2(0, 0, 1, 0x40, mod, [f, b"N"], [s(b"f")], [], b"<module>")
        path = os.path.join(tmp, "f27.pyc")
        with open(path, "wb") as fp:
            fp.write(struct.pack("<H", 62211) + b"\r\n" + struct.pack("<I", 0) + co)

        shared = xdis.unmarshal.load_code.__defaults__[1]
        sizes = [len(shared)]
        mine = {}
        for _ in range(3):
            load_module(path, code_objects=mine)
            sizes.append(len(shared))
        print("size of the shared default code_objects dict before and after 3 loads:", sizes)
        print("dict passed as load_module(code_objects=...) afterwards has %d entries" % len(mine))
        if sizes[-1] > sizes[0] or not mine:
            print("DEFECT: code objects of earlier loads accumulate in module-level state; "
                  "the caller's code_objects dict is ignored")
            return 1
        print("ok")
        return 0
    finally:
        shutil.rmtree(tmp, ignore_errors=True)


if __name__ == "__main__":
    sys.exit(main())

#!/usr/bin/env python
"""EXISTING DEFECT 1 (unchanged library): disassemble_file(..., asm_format="xasm")
is not repeatable.  xdis.disasm.code_uniquify() names every <lambda>/<listcomp>/
duplicate function  "%s_0x%x" % (basename, id(co_code)),  so the "# Method Name:"
lines (and the co_name stored in the returned code object) change from call to
call on the same file in the same process (and from process to process).

Exit 1 + evidence when the defect is present, 0 otherwise.
"""
import io
import os
import re
import shutil
import struct
import sys
import tempfile

from xdis.disasm import disassemble_file


def s(b):
    return b"s" + struct.pack("<i", len(b)) + b


def tup(items):
    return b"(" + struct.pack("<i", len(items)) + b"".join(items)


def code2(argcount, nlocals, stacksize, flags, code, consts, names, varnames, name):
    return (
        b"c" + struct.pack("<iiii", argcount, nlocals, stacksize, flags)
        + s(code) + tup(consts) + tup(names) + tup(varnames) + tup([]) + tup([])
        + s(b"m.py") + s(name) + struct.pack("<i", 1) + s(b"")
    )


def main():
    tmp = tempfile.mkdtemp(prefix="c18bug1-")
    try:
        # Python 2.7:   f = lambda x: x
        lam = code2(1, 1, 1, 0x43, b"\x7c\x00\x00\x53", [b"N"], [], [s(b"x")], b"<lambda>")
        mod = b"\x64\x00\x00\x84\x00\x00\x5a\x00\x00\x64\x01\x00\x53"
        co = code2(0, 0, 1, 0x40, mod, [lam, b"N"], [s(b"f")], [], b"<module>")
        path = os.path.join(tmp, "lam27.pyc")
        with open(path, "wb") as fp:
            fp.write(struct.pack("<H", 62211) + b"\r\n" + struct.pack("<I", 0) + co)

        keep = []  # keep earlier results alive so addresses cannot be recycled
        names = []
        for _ in range(3):
            out = io.StringIO()
            keep.append(disassemble_file(path, out, asm_format="xasm"))
            names.append(re.findall(r"^# Method Name: +(\S+)$", out.getvalue(), flags=re.M))
        print("'# Method Name:' lines of three identical calls:")
        for n in names:
            print("   ", n)
        if names[0] != names[1] or names[1] != names[2]:
            print("DEFECT: repeating disassemble_file(path, asm_format='xasm') gives a different listing")
            return 1
        print("ok: identical")
        return 0
    finally:
        shutil.rmtree(tmp, ignore_errors=True)


if __name__ == "__main__":
    sys.exit(main())

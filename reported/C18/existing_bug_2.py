#!/usr/bin/env python
"""EXISTING DEFECT 2 (unchanged library): xdis.disasm.disco(..., asm_format="xasm")
modifies the code object it is given (disco_loop_asm_format() assigns co.co_consts
and the co_name of nested code objects, because codeType2Portable() returns a
portable code object unchanged rather than a copy).  A later listing of the same
loaded module therefore differs from the one made before the xasm call:
   classic listing -> xasm listing -> classic listing   gives   A, X, A'  with A' != A.

Exit 1 + evidence when the defect is present, 0 otherwise.
"""
import difflib
import io
import os
import re
import shutil
import struct
import sys
import tempfile

from xdis.disasm import disco
from xdis.load import load_module


def s(b):
    return b"s" + struct.pack("<i", len(b)) + b


def tup(items):
    return b"(" + struct.pack("<i", len(items)) + b"".join(items)


def code2(argcount, nlocals, stacksize, flags, code, consts, names, varnames, name):
    return (
        b"c" + struct.pack("<iiii", argcount, nlocals, stacksize, flags)
        + s(code) + tup(consts) + tup(names) + tup(varnames) + tup([]) + tup([])
        + s(b"m.py") + s(name) + struct.pack("<i", 1) + s(b"")
    )


def main():
    tmp = tempfile.mkdtemp(prefix="c18bug2-")
    try:
        lam = code2(1, 1, 1, 0x43, b"\x7c\x00\x00\x53", [b"N"], [], [s(b"x")], b"<lambda>")
        mod = b"\x64\x00\x00\x84\x00\x00\x5a\x00\x00\x64\x01\x00\x53"
        co = code2(0, 0, 1, 0x40, mod, [lam, b"N"], [s(b"f")], [], b"<module>")
        path = os.path.join(tmp, "lam27.pyc")
        with open(path, "wb") as fp:
            fp.write(struct.pack("<H", 62211) + b"\r\n" + struct.pack("<I", 0) + co)

        version, ts, magic_int, code, is_pypy, size, sip = load_module(path)

        def listing(fmt):
            out = io.StringIO()
            disco(version, code, ts, out, is_pypy, magic_int, size, sip, asm_format=fmt)
            return re.sub(r"0x[0-9a-f]+", "0xX", out.getvalue())  # mask addresses

        first = listing("classic")
        assert listing("classic") == first
        name_before = code.co_consts[0].co_name
        listing("xasm")
        name_after = code.co_consts[0].co_name
        second = listing("classic")
        print("co_name of the nested code object before/after the xasm listing: %r / %r"
              % (name_before, re.sub(r"0x[0-9a-f]+", "0xX", name_after)))
        if first != second:
            print("classic listing before vs after an xasm listing of the same code object:")
            for line in difflib.unified_diff(first.splitlines(), second.splitlines(), "before", "after", lineterm="", n=0):
                print("   " + line)
            print("DEFECT: disco(asm_format='xasm') alters its input; later listings differ")
            return 1
        print("ok: identical")
        return 0
    finally:
        shutil.rmtree(tmp, ignore_errors=True)


if __name__ == "__main__":
    sys.exit(main())

"""Adjacent existing defect in the UNCHANGED library (outside the letter of
C14, which speaks of dumps/loads): the file-object variants xdis.marsh.load
and xdis.marsh.dump do not work at all on a Python 3 host.

  * xdis.marsh.load(f): _Unmarshaller.load reads a 1-byte *bytes* object and
    looks it up in a dispatch table keyed by 1-character *str*; every lookup
    fails, and the error path ("%c" % bytes) then raises TypeError.
  * xdis.marsh.dump(x, f): _Marshaller hands str chunks to f.write, which a
    binary file rejects with TypeError.
Exits 1 when present.
"""
import io
import marshal
import sys

import xdis.marsh as xm

bad = 0
for value in (None, 5, "a", (1, 2)):
    try:
        got = xm.load(io.BytesIO(marshal.dumps(value, 1)))
        if got != value:
            print("load: %r -> %r" % (value, got)); bad += 1
    except BaseException as exc:  # noqa
        print("xdis.marsh.load(BytesIO(marshal.dumps(%r, 1))) raised %s: %s"
              % (value, type(exc).__name__, exc))
        bad += 1
    f = io.BytesIO()
    try:
        xm.dump(value, f)
        if marshal.loads(f.getvalue()) != value:
            print("dump: %r differs" % (value,)); bad += 1
    except BaseException as exc:  # noqa
        print("xdis.marsh.dump(%r, BytesIO()) raised %s: %s" % (value, type(exc).__name__, exc))
        bad += 1
sys.exit(1 if bad else 0)

"""Existing deviation in the UNCHANGED library (C14): nesting depth.

The host's marshal reads and writes containers nested up to 2000 levels
(MAX_MARSHAL_STACK_DEPTH).  xdis.marsh recurses in Python, two or three
interpreter frames per level, so under the default recursion limit (1000)
  * xdis.marsh.loads raises RecursionError on marshal.dumps(v, 0/1) of a
    tuple nested ~350+ deep (load -> load_tuple -> load_list per level),
  * xdis.marsh.dumps raises RecursionError on a list/tuple nested ~500+ deep,
although these are plain values that the host's marshal round-trips.
Exits 1 when the deviation is present.
"""
import marshal
import sys

import xdis.marsh as xm


def nest(n, wrap):
    v = ()
    for _ in range(n):
        v = wrap(v)
    return v


bad = 0
for depth, wrap, name in ((400, lambda v: (v,), "tuple"), (600, lambda v: [v], "list")):
    value = nest(depth, wrap)
    # the host is fine in both directions
    for version in (0, 1):
        assert marshal.loads(marshal.dumps(value, version)) == value
    for version in (0, 1):
        data = marshal.dumps(value, version)
        try:
            ok = xm.loads(data) == value
            if not ok:
                print("%s nested %d deep: xdis.marsh.loads(marshal.dumps(v, %d)) differs"
                      % (name, depth, version))
                bad += 1
        except RecursionError as exc:
            print("%s nested %d deep: xdis.marsh.loads(marshal.dumps(v, %d)) raised "
                  "RecursionError (recursion limit %d); the host's marshal.loads reads it"
                  % (name, depth, version, sys.getrecursionlimit()))
            bad += 1
    try:
        ok = marshal.loads(xm.dumps(value)) == value
        if not ok:
            print("%s nested %d deep: marshal.loads(xdis.marsh.dumps(v)) differs" % (name, depth))
            bad += 1
    except RecursionError:
        print("%s nested %d deep: xdis.marsh.dumps(v) raised RecursionError "
              "(recursion limit %d); the host's marshal.dumps writes it"
              % (name, depth, sys.getrecursionlimit()))
        bad += 1

sys.exit(1 if bad else 0)

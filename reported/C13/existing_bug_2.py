#!/usr/bin/env python
"""Existing defect: header layout disagreement for magic 3190 (Python 3.3a0).
load_module reads the 4-byte source-size field only for magics >= 3200
(load.py: `3200 <= magic_int < 20121`), but write_bytecode_file writes it
whenever the version tuple is >= (3, 3), which includes magic 3190.  A 3190
file therefore loads fine, is written back with a 12-byte header, and the
result cannot be read back (the code object comes back as None / ImportError).
Exit 1 when the defect is present."""
import contextlib, io, os, shutil, struct, sys, tempfile
from xdis.codetype import Code3
from xdis.load import load_module, write_bytecode_file

def f(a, b=2):
    return a + b
c = f.__code__
# a 3.2/3.3a0-layout code object (the marshalled layout is the same for both)
code = Code3(c.co_argcount, c.co_kwonlyargcount, c.co_nlocals, c.co_stacksize, 0x43,
             b"|\x00\x00|\x01\x00\x17S", (None,), (), c.co_varnames, "example_module.py",
             "f", 1, b"\x00\x01", (), ())
tmp = tempfile.mkdtemp(prefix="c13bug2-")
status = 0
try:
    base = os.path.join(tmp, "base.pyc")
    write_bytecode_file(base, code, 3180, 1000000)           # Python 3.2: 8-byte header
    data = open(base, "rb").read() + b"\x00" * 40             # (padding: load_module wants >= 50 bytes)
    for magic in (3180, 3190, 3230):
        inp = os.path.join(tmp, "in_%d.pyc" % magic)
        if magic == 3230:
            write_bytecode_file(inp, code, magic, 1000000, 123)
            open(inp, "ab").write(b"\x00" * 40)
        else:
            open(inp, "wb").write(struct.pack("<H", magic) + data[2:])
        err = io.StringIO()
        with contextlib.redirect_stderr(err):
            v, ts, mi, co, pypy, size, sip = load_module(inp)
        out = os.path.join(tmp, "out_%d.pyc" % magic)
        write_bytecode_file(out, co, mi, ts, size or 0)
        open(out, "ab").write(b"\x00" * 40)
        try:
            with contextlib.redirect_stderr(err):
                co2 = load_module(out)[3]
            got = None if co2 is None else (co2.co_name, co2.co_code, co2.co_varnames)
        except Exception as e:
            got = "load failed: " + " ".join(str(e).split())[:100]
        want = (co.co_name, co.co_code, co.co_varnames)
        hdr_in = 8 if size is None else 12
        print("magic %d: input header %d bytes, source_size read=%r; after rewrite xdis reads back: %r"
              % (magic, hdr_in, size, got))
        if got != want:
            print("  DEFECT: expected %r" % (want,))
            status = 1
finally:
    shutil.rmtree(tmp, ignore_errors=True)
sys.exit(status)

#!/usr/bin/env python
"""Existing defect: xdis.marsh writes every float/complex as text (TYPE_FLOAT 'f' /
TYPE_COMPLEX 'x' with repr()), so the sign bit of a NaN constant is lost: the
x86 default NaN produced by constant folding (inf - inf, inf * 1j) has its sign
bit set and repr() is just 'nan'.  The rewritten program prints something else.
Exit 1 when the defect is present."""
import contextlib, io, os, shutil, struct, subprocess, sys, tempfile
from xdis.load import load_module, write_bytecode_file

PY = "/root/.pyenv/versions/3.8.18/bin/python"
SRC = """\
import math, struct
F = 1e308 * 10 - 1e308 * 10      # folded to a NaN constant
C = 1e308 * 10 * 1j              # folded to complex(nan, inf)
print(math.copysign(1.0, F), math.copysign(1.0, C.real), struct.pack('<d', F).hex())
"""
tmp = tempfile.mkdtemp(prefix="c13bug1-")
try:
    src = os.path.join(tmp, "m.py"); pyc = os.path.join(tmp, "m.pyc"); out = os.path.join(tmp, "o.pyc")
    open(src, "w").write(SRC)
    subprocess.check_call([PY, "-c", "import py_compile,sys; py_compile.compile(sys.argv[1], cfile=sys.argv[2], doraise=True)", src, pyc])
    with contextlib.redirect_stderr(io.StringIO()):
        v, ts, mi, co, pypy, size, sip = load_module(pyc)
    nan_consts = [c for c in co.co_consts if isinstance(c, float) and c != c]
    write_bytecode_file(out, co, mi, ts, size or 0)
    a = subprocess.run([PY, pyc], stdout=subprocess.PIPE, stderr=subprocess.STDOUT).stdout.decode()
    b = subprocess.run([PY, out], stdout=subprocess.PIPE, stderr=subprocess.STDOUT).stdout.decode()
finally:
    shutil.rmtree(tmp, ignore_errors=True)
print("NaN constant as loaded by xdis :", [struct.pack("<d", c).hex() for c in nan_consts])
print("original  file prints:", a.strip())
print("rewritten file prints:", b.strip())
if a != b:
    print("DEFECT: the rewritten file is a different program (NaN sign bit lost)")
    sys.exit(1)
print("no difference")

#!/usr/bin/env python
"""Existing defect: xdis.marsh never writes object references (FLAG_REF / TYPE_REF),
so constants that CPython 3.8+ shares between code objects of one module come
back as separate copies.  The code objects still compare equal, but a program
that observes identity ('is', id()) behaves differently after the round trip.
Exit 1 when the defect is present."""
import contextlib, io, os, shutil, subprocess, sys, tempfile
from xdis.load import load_module, write_bytecode_file

PY = "/root/.pyenv/versions/3.8.18/bin/python"
SRC = '''\
def f(): return "hello world!"
def g(): return "hello world!"
def h(): return (1.5, "a b")
def k(): return (1.5, "a b")
print(f() is g(), h() is k())
'''
tmp = tempfile.mkdtemp(prefix="c13bug3-")
try:
    src = os.path.join(tmp, "m.py"); pyc = os.path.join(tmp, "m.pyc"); out = os.path.join(tmp, "o.pyc")
    open(src, "w").write(SRC)
    subprocess.check_call([PY, "-c", "import py_compile,sys; py_compile.compile(sys.argv[1], cfile=sys.argv[2], doraise=True)", src, pyc])
    with contextlib.redirect_stderr(io.StringIO()):
        v, ts, mi, co, pypy, size, sip = load_module(pyc)
    write_bytecode_file(out, co, mi, ts, size or 0)
    a = subprocess.run([PY, pyc], stdout=subprocess.PIPE, stderr=subprocess.STDOUT).stdout.decode()
    b = subprocess.run([PY, out], stdout=subprocess.PIPE, stderr=subprocess.STDOUT).stdout.decode()
finally:
    shutil.rmtree(tmp, ignore_errors=True)
print("original  file prints:", a.strip())
print("rewritten file prints:", b.strip())
if a != b:
    print("DEFECT: executing the rewritten file behaves differently (shared constants were duplicated)")
    sys.exit(1)
print("no difference")

#!/usr/bin/env python
"""EXISTING DEFECT 1 (unchanged library): Python 2.0 bytecode cannot be loaded.

xdis/unmarshal.py, t_code():

        if self.version_tuple >= (2, 0):
            co_freevars = self.r_object(...)
            co_cellvars = self.r_object(...)

Nested scopes (PEP 227), and with them the co_freevars / co_cellvars fields of
a marshalled code object, arrived in Python 2.1 (magic 60202).  A Python 2.0
(magic 50823) code object has exactly the 1.5/1.6 layout:

    'c' argcount nlocals stacksize flags        (four 16-bit fields)
    code consts names varnames filename name    (objects)
    firstlineno (16 bit)  lnotab (object)

(Python-2.0/Python/marshal.c, case TYPE_CODE; xdis itself agrees everywhere
else: codeType2Portable() picks Code15 - no free/cell variables - for (2, 0)
and opcodes/opcode_20.py removes MAKE_CLOSURE/LOAD_CLOSURE/LOAD_DEREF.)

So for a 2.0 file t_code() takes the file name for co_freevars, the code name
for co_cellvars, and then reads the 16-bit first line number and the line
table as if they were the file-name and name objects.

The script builds the .pyc of the module "x = 1" by hand in the 2.0 layout and
loads it twice: once under the 1.6 magic (same layout; loads fine, which shows
the payload is well formed) and once under the 2.0 magic.
Exit status 1 = defect present.
"""
import io
import os
import shutil
import struct
import sys
import tempfile


def s(b):
    return b"s" + struct.pack("<i", len(b)) + b


def tup(*items):
    return b"(" + struct.pack("<i", len(items)) + b"".join(items)


# SET_LINENO 1; LOAD_CONST 0; STORE_NAME 0; LOAD_CONST 1; RETURN_VALUE
CODE = b"\x7f\x01\x00" b"d\x00\x00" b"Z\x00\x00" b"d\x01\x00" b"S"
PAYLOAD = (
    b"c"
    + struct.pack("<hhhh", 0, 0, 1, 0)  # argcount nlocals stacksize flags
    + s(CODE)
    + tup(b"i" + struct.pack("<i", 1), b"N")  # co_consts (1, None)
    + tup(s(b"x"))  # co_names
    + tup()  # co_varnames
    + s(b"module20.py")  # co_filename
    + s(b"?")  # co_name
    + struct.pack("<h", 1)  # co_firstlineno
    + s(b"")  # co_lnotab
)
EXPECT = dict(
    co_argcount=0,
    co_nlocals=0,
    co_stacksize=1,
    co_flags=0,
    co_code=CODE,
    co_consts=(1, None),
    co_names=("x",),
    co_varnames=(),
    co_filename="module20.py",
    co_name="?",
    co_firstlineno=1,
    co_lnotab=b"",
)


def try_load(path):
    from xdis.load import load_module

    saved = sys.stderr
    sys.stderr = io.StringIO()
    try:
        co = load_module(path)[3]
    except Exception as e:
        return None, "%s: %s" % (type(e).__name__, str(e).replace("\n", " | "))
    finally:
        sys.stderr = saved
    wrong = [
        "%s: expected %r, got %r" % (k, v, getattr(co, k, "<missing>"))
        for k, v in sorted(EXPECT.items())
        if getattr(co, k, "<missing>") != v
    ]
    return co, "; ".join(wrong)


def main():
    from xdis.magics import int2magic

    tmp = tempfile.mkdtemp(prefix="c01bug1-")
    status = 0
    try:
        for label, magic_int in (("1.6", 50428), ("2.0", 50823)):
            path = os.path.join(tmp, "module%s.pyc" % label.replace(".", ""))
            with open(path, "wb") as f:
                f.write(int2magic(magic_int) + struct.pack("<I", 1000000000) + PAYLOAD)
            co, problem = try_load(path)
            if problem:
                print("Python %s magic %d: WRONG  %s" % (label, magic_int, problem))
                if label == "2.0":
                    status = 1
            else:
                print("Python %s magic %d: loads, every field as written" % (label, magic_int))
    finally:
        shutil.rmtree(tmp, ignore_errors=True)
    if status:
        print("DEFECT: a well-formed Python 2.0 code object is misread (free/cell variable "
              "fields are read although 2.0 does not have them)")
    return status


if __name__ == "__main__":
    sys.exit(main())

#!/usr/bin/env python
"""EXISTING DEFECT 3 (unchanged library, minor): load_module() refuses every
bytecode file shorter than 50 bytes ("too short to be a valid pyc file"), but
well-formed files can be shorter.

xdis/load.py, load_module():

        elif osp.getsize(filename) < 50:
            raise ImportError("File name: '%s (%d bytes)' is too short ...")

A Python 1.0 - 1.2 code object has no argcount/nlocals/flags/stacksize,
no co_varnames, no first line number and no line table, so the complete .pyc
of a module consisting of "pass", compiled from a file called "a.py", is 47
bytes (8-byte header + 39-byte payload).  The same module compiled from
"longer_name.py" is over the limit and loads.  (xdis.unmarshal.load_code reads
the 39-byte payload without complaint, so only the size test stands in the way.)
Exit status 1 = defect present.
"""
import io
import os
import shutil
import struct
import sys
import tempfile


def s(b):
    return b"s" + struct.pack("<i", len(b)) + b


def pyc10(filename):
    from xdis.magics import int2magic

    code = b"\x7f\x01\x00" b"d\x00\x00" b"S"  # SET_LINENO 1; LOAD_CONST 0; RETURN_VALUE
    payload = (
        b"C"  # the code-object type code of Python 1.0
        + s(code)
        + b"[" + struct.pack("<i", 1) + b"N"  # co_consts is a list in 1.0
        + b"[" + struct.pack("<i", 0)  # co_names
        + s(filename)
        + s(b"?")
    )
    return int2magic(39170) + struct.pack("<I", 800000000), payload


def main():
    from xdis.load import load_module
    from xdis.unmarshal import load_code

    tmp = tempfile.mkdtemp(prefix="c01bug3-")
    status = 0
    try:
        for fname in (b"longer_name.py", b"a.py"):
            header, payload = pyc10(fname)
            path = os.path.join(tmp, fname.decode()[:-3] + ".pyc")
            with open(path, "wb") as f:
                f.write(header + payload)
            direct = load_code(io.BytesIO(payload), 39170)
            saved = sys.stderr
            sys.stderr = io.StringIO()
            try:
                co = load_module(path)[3]
                print("%-16s %2d bytes: load_module -> %s %r %r"
                      % (fname.decode(), len(header + payload), type(co).__name__, co.co_filename, co.co_consts))
            except ImportError as e:
                status = 1
                print("%-16s %2d bytes: load_module raises ImportError(%s); "
                      "the unmarshaller alone reads the payload fine: %r %r"
                      % (fname.decode(), len(header + payload), e, direct.co_filename, direct.co_consts))
            finally:
                sys.stderr = saved
    finally:
        shutil.rmtree(tmp, ignore_errors=True)
    if status:
        print("DEFECT: a well-formed bytecode file is rejected only because it is under 50 bytes")
    return status


if __name__ == "__main__":
    sys.exit(main())

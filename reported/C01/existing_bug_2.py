#!/usr/bin/env python
"""EXISTING DEFECT 2 (unchanged library): the line table of a Python 2 code
object comes back as TEXT ('' of type str) instead of bytes when it is empty.

xdis/unmarshal.py, t_code() reads the line table with
``self.r_object(bytes_for_s=True)`` so that it stays a byte string, but that
flag is honoured only by t_string (marshal type 's').  In CPython 2.x the
empty string is an interned singleton, so marshal writes an empty co_lnotab as
an INTERNED string - type 't' the first time and a string reference 'R' after
that - and t_interned / t_python2_string_reference ignore bytes_for_s and go
through compat_str(), which decodes to str.

Every code object whose body is on one line (a module "x = 1", a lambda, a
"def f(): pass") has an empty line table, so ordinary files written by
py_compile under Python 2.7.18 show it; non-empty tables are bytes.

Ground truth: Python 2.7's own marshal.loads -> co_lnotab == '' which in
Python 2 is the byte-string type, the same type as every non-empty table.
Exit status 1 = defect present.
"""
import glob
import io
import os
import shutil
import subprocess
import sys
import tempfile

SOURCE = "x = 1\nf = lambda: 0\ndef g(a):\n    b = a\n    return b\n"

PRODUCER = r'''
import sys, py_compile, marshal
src = sys.argv[1]
py_compile.compile(src, src + "c", doraise=True)
co = marshal.loads(open(src + "c", "rb").read()[8:])
def walk(co, path):
    print("%s %s %r" % (path, type(co.co_lnotab).__name__, co.co_lnotab))
    for n, c in enumerate(co.co_consts):
        if hasattr(c, "co_lnotab"):
            walk(c, "%s.co_consts[%d]" % (path, n))
walk(co, "module")
'''


def walk(co, path, acc):
    acc.append((path, type(co.co_lnotab).__name__, co.co_lnotab))
    for n, c in enumerate(co.co_consts):
        if hasattr(c, "co_lnotab"):
            walk(c, "%s.co_consts[%d]" % (path, n), acc)
    return acc


def main():
    from xdis.load import load_module

    producers = sorted(glob.glob("/root/.pyenv/versions/2.7.*/bin/python"))
    if not producers:
        print("no Python 2.7 interpreter available; cannot produce the input")
        return 0
    tmp = tempfile.mkdtemp(prefix="c01bug2-")
    try:
        src = os.path.join(tmp, "oneliners.py")
        with open(src, "w") as f:
            f.write(SOURCE)
        prod = os.path.join(tmp, "producer.py")
        with open(prod, "w") as f:
            f.write(PRODUCER)
        truth = subprocess.check_output([producers[0], prod, src]).decode()
        raw = open(src + "c", "rb").read()
        saved = sys.stderr
        sys.stderr = io.StringIO()
        try:
            co = load_module(src + "c")[3]
        finally:
            sys.stderr = saved
    finally:
        shutil.rmtree(tmp, ignore_errors=True)

    print("Python 2.7 (str is the byte-string type there):")
    print("   " + truth.strip().replace("\n", "\n   "))
    print("the file holds an interned empty string (b't' + 4 zero bytes): %s"
          % (b"t\x00\x00\x00\x00" in raw))
    print("xdis:")
    bad = 0
    for path, tname, value in walk(co, "module", []):
        flag = "" if tname == "bytes" else "   <-- text, not bytes"
        bad += tname != "bytes"
        print("   %s %s %r%s" % (path, tname, value, flag))
    if bad:
        print("DEFECT: %d line table(s) returned as str instead of bytes" % bad)
    return 1 if bad else 0


if __name__ == "__main__":
    sys.exit(main())

"""EXISTING DEFECT (unchanged xdis): TYPE_INTERNED ('t') records of Python 3.4+
are decoded with strict UTF-8 via compat_str(), not with "surrogatepass" as
marshal.c does (and as xdis' own t_unicode does).  An interned str constant
that holds a lone surrogate comes back as a *bytes* object.

Real CPython writes such a record: once a non-ASCII str constant has been
interned (sys.intern on the constant object), marshal.dumps emits 't'.
Exits 1 when the defect is present.
"""
import marshal
import struct
import sys

from xdis.magics import magic2int
from xdis.unmarshal import load_code
import importlib.util

bad = []

# 1. a stream written by the running CPython
code = compile("x = '\\ud800 y'\n", "demo", "exec")
sys.intern(code.co_consts[0])
data = marshal.dumps(code)
assert b"t\x05\x00\x00\x00\xed\xa0\x80 y" in data.replace(b"\xf4", b"t"), data
want = marshal.loads(data).co_consts
got = load_code(data, magic2int(importlib.util.MAGIC_NUMBER)).co_consts
print("host-written stream: marshal.loads ->", ascii(want), " xdis ->", ascii(got))
if tuple(map(type, want)) != tuple(map(type, got)) or want != got:
    bad.append("host stream")


# 2. the same record inside a hand-made Python 3.8 code object
def I(n):
    return struct.pack("<i", n)


consts = b")\x02" + b"t" + I(3) + b"\xed\xa0\x80" + b"N"
stream = (
    b"c" + I(0) * 4 + I(1) + I(64) + b"s" + I(4) + b"d\x00S\x00" + consts
    + b")\x00" * 4 + b"z\x01f" + b"z\x01m" + I(1) + b"s" + I(0)
)
want = marshal.loads(consts)
got = load_code(stream, 3413).co_consts
print("3.8 stream: marshal.loads ->", ascii(want), " xdis ->", ascii(got))
if tuple(map(type, want)) != tuple(map(type, got)) or want != got:
    bad.append("3.8 stream")

if bad:
    print("DEFECT PRESENT: 't' record with a surrogate decodes to bytes, not str:", bad)
    sys.exit(1)
print("ok")

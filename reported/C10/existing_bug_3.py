"""EXISTING DEFECTS (unchanged xdis) in how Python 2 text constants come back
(xdis/cross_types.py UnicodeForPython3, xdis/unmarshal.py t_string/compat_str).
The module is compiled and marshalled by a real Python 2.7.

 a. u'\\ud800' decodes to a UnicodeForPython3 whose == raises UnicodeDecodeError
    (it decodes its UTF-8 payload strictly; Python 2 writes surrogates as-is).
 b. UnicodeForPython3.__hash__ is id(self.value): decoding the same stream
    twice gives frozensets / dicts that compare unequal, and `u'abc' in consts_set`
    is False although == says True.
 c. repr() of a non-ASCII unicode constant drops its first two characters:
    u'h\\xe9llo' is shown as u'\\ullo'; the str content of the object is the
    repr of a bytes object ("b'abc'", length 6 for u'abc').
 d. A Python 2 byte string constant changes kind with its content:
    '\\xc3\\xa9' (2 bytes) comes back as the 1-character str 'é', '\\xe9' as bytes.
Exits 1 when any of these is present.
"""
import os
import shutil
import subprocess
import sys
import tempfile

from xdis.load import load_module

PY27 = "/root/.pyenv/versions/2.7.18/bin/python"
SRC = (
    "# -*- coding: utf-8 -*-\n"
    "a = u'\\ud800'\n"
    "b = u'h\\xe9llo'\n"
    "c = u'abc'\n"
    "d = '\\xc3\\xa9'\n"
    "e = '\\xe9'\n"
)

tmp = tempfile.mkdtemp(prefix="c10bug3")
problems = []
try:
    src = os.path.join(tmp, "m.py")
    pyc = os.path.join(tmp, "m.pyc")
    open(src, "w").write(SRC)
    truth = subprocess.check_output(
        [PY27, "-c",
         "import py_compile, marshal, sys; py_compile.compile(sys.argv[1], sys.argv[2], doraise=True);"
         "print(repr(marshal.loads(open(sys.argv[2],'rb').read()[8:]).co_consts))", src, pyc]
    ).decode().strip()
    print("Python 2.7 marshal.loads:", truth)
    consts1 = load_module(pyc)[3].co_consts
    consts2 = load_module(pyc)[3].co_consts
    print("xdis                    :", repr(consts1))
    a, b, c, d, e = consts1[:5]

    try:
        a == u"\ud800"
    except UnicodeDecodeError as exc:
        problems.append("a. comparing the decoded u'\\ud800' raises %r" % (exc,))

    if c == consts2[2] and hash(c) != hash(consts2[2]):
        problems.append("b. two decodings of u'abc' are == but hash differently: "
                        "frozenset([c1]) == frozenset([c2]) is %r, 'abc' in {c1} is %r"
                        % (frozenset([c]) == frozenset([consts2[2]]), "abc" in {c}))
    if repr(b) != "u'h\\xe9llo'":
        problems.append("c. repr(u'h\\xe9llo') is %s; len(u'abc' decoded) is %d, str.__str__ gives %r"
                        % (repr(b), len(c), str.__str__(c)))
    if type(d) is not type(e):
        problems.append("d. '\\xc3\\xa9' -> %r (%s, len %d) but '\\xe9' -> %r (%s)"
                        % (d, type(d).__name__, len(d), e, type(e).__name__))
finally:
    shutil.rmtree(tmp, ignore_errors=True)

if problems:
    print("DEFECTS PRESENT:")
    for p in problems:
        print("  " + p)
    sys.exit(1)
print("ok")

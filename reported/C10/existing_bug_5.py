"""EXISTING DEFECT (unchanged xdis; outside a code object, so at the edge of
C10): the unmarshaller learns the Python version only inside t_code
(self.version_tuple is () until the first code object starts).  t_long and
t_unicode test `self.version_tuple < (3, 0)`, and () < (3, 0) is True, so a
Python 3 value that is NOT wrapped in a code object - xdis.unmarshal.load_code
on a marshalled constant, tuple of constants, ... - is decoded with Python 2
rules: ints needing the digit-array form come back as LongTypeForPython3
(repr '...L') and 'u' strings as UnicodeForPython3.
Exits 1 when the defect is present.
"""
import marshal
import sys

from xdis.unmarshal import load_code

value = (2 ** 70, "h\xe9llo", 5)
data = marshal.dumps(value)
got = load_code(data, 3413)  # Python 3.8 magic
print("marshal.loads:", repr(value), [type(x).__name__ for x in value])
print("xdis         :", repr(got), [type(x).__name__ for x in got])
if [type(x) for x in got] != [type(x) for x in value] or repr(got) != repr(value):
    print("DEFECT PRESENT: Python 3 constants outside a code object are decoded as Python 2 long/unicode")
    sys.exit(1)
print("ok")

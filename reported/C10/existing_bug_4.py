"""EXISTING DEFECT (unchanged xdis, low severity): container nesting depth.
marshal.c accepts containers nested up to MAX_MARSHAL_STACK_DEPTH (2000 on
Linux); xdis.unmarshal recurses two Python frames per level (r_object ->
t_small_tuple) and hits the interpreter's recursion limit (1000) at a depth
of about 490.  A constant such as ((((...(None,)...),),),) nested 600 deep
loads fine with marshal.loads but raises RecursionError in xdis.
(CPython's own compiler cannot produce such a constant - its parser stops at
~100-200 nested parentheses - so this needs a hand-made stream.)
Exits 1 when the defect is present.
"""
import marshal
import struct
import sys

from xdis.unmarshal import load_code


def I(n):
    return struct.pack("<i", n)


depth = 600
consts = b")\x01" + b")\x01" * depth + b"N"
stream = (
    b"c" + I(0) * 4 + I(1) + I(64) + b"s" + I(4) + b"d\x00S\x00" + consts
    + b")\x00" * 4 + b"z\x01f" + b"z\x01m" + I(1) + b"s" + I(0)
)


def nesting(v):
    n = 0
    while isinstance(v, tuple):
        v = v[0]
        n += 1
    return n


print("marshal.loads: nesting depth", nesting(marshal.loads(consts)))
try:
    got = load_code(stream, 3413).co_consts
    print("xdis: nesting depth", nesting(got))
except RecursionError as e:
    print("DEFECT PRESENT: xdis raises RecursionError:", e)
    sys.exit(1)
print("ok")

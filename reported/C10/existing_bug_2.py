"""EXISTING DEFECT (unchanged xdis): the ASCII text forms 'a', 'A', 'z', 'Z'
(marshal format 4) are decoded with compat_str(), i.e. strict UTF-8 with a
fall-back to the raw bytes.  marshal.c builds the string with
PyUnicode_FromKindAndData(PyUnicode_1BYTE_KIND, ...), i.e. Latin-1: every byte
is one code point.  CPython's writer only uses these forms for pure ASCII, but
the reader accepts any bytes, so a stream may legitimately contain them:

    marshal.loads(b'z\\x01\\xe9')      -> 'é'        xdis -> b'\\xe9'  (bytes!)
    marshal.loads(b'z\\x02\\xc3\\xa9')  -> 'Ã©'       xdis -> 'é'       (other text)
Exits 1 when the defect is present.
"""
import marshal
import struct
import sys

from xdis.unmarshal import load_code


def I(n):
    return struct.pack("<i", n)


def code38(consts):
    return (
        b"c" + I(0) * 4 + I(1) + I(64) + b"s" + I(4) + b"d\x00S\x00" + consts
        + b")\x00" * 4 + b"z\x01f" + b"z\x01m" + I(1) + b"s" + I(0)
    )


bad = 0
for name, rec in (
    ("z", b"z\x01\xe9"),
    ("z", b"z\x02\xc3\xa9"),
    ("Z", b"Z\x01\xe9"),
    ("a", b"a" + I(2) + b"\xc3\xa9"),
    ("A", b"A" + I(1) + b"\xff"),
):
    consts = b")\x01" + rec
    want = marshal.loads(consts)
    got = load_code(code38(consts), 3413).co_consts
    ok = type(want[0]) is type(got[0]) and want == got
    print("%-2s %-22r marshal.loads -> %-12s xdis -> %-12s %s"
          % (name, rec, ascii(want), ascii(got), "ok" if ok else "DIFFERS"))
    bad += not ok
if bad:
    print("DEFECT PRESENT: %d non-ASCII 'a'/'A'/'z'/'Z' records decode differently" % bad)
    sys.exit(1)
print("ok")

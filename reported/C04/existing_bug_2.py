"""opc.get_jump_target_maps (wordcode.get_jump_target_maps, bound for every 3.6+
opcode table) computes jump targets as ``offset + 2 + arg`` / ``arg`` for all
versions: it does not word-scale the operand for 3.10+, does not negate
backward jumps in 3.11+ and does not skip inline caches in 3.12+, so the jump
targets it reports disagree with opc.findlabels on the same code."""
import sys
from xdis.op_imports import get_opcode_module

bad = 0
for vt, prog in [
    ((3, 9), [("LOAD_NAME", 0), ("POP_JUMP_IF_FALSE", 8), ("LOAD_NAME", 0), ("POP_TOP", 0),
              ("JUMP_FORWARD", 2), ("NOP", 0), ("LOAD_CONST", 0), ("RETURN_VALUE", 0)]),
    ((3, 10), [("LOAD_NAME", 0), ("POP_JUMP_IF_FALSE", 4), ("LOAD_NAME", 0), ("POP_TOP", 0),
               ("JUMP_FORWARD", 1), ("NOP", 0), ("LOAD_CONST", 0), ("RETURN_VALUE", 0)]),
    ((3, 11), [("RESUME", 0), ("LOAD_NAME", 0), ("POP_JUMP_FORWARD_IF_FALSE", 2), ("LOAD_NAME", 0),
               ("POP_TOP", 0), ("JUMP_BACKWARD", 5), ("LOAD_CONST", 0), ("RETURN_VALUE", 0)]),
    ((3, 12), [("RESUME", 0), ("LOAD_NAME", 0), ("GET_ITER", 0), ("FOR_ITER", 3), ("CACHE", 0),
               ("STORE_NAME", 1), ("JUMP_BACKWARD", 4), ("NOP", 0), ("END_FOR", 0), ("RETURN_CONST", 0)]),
]:
    opc = get_opcode_module(vt, None)
    code = b"".join(bytes([opc.opmap[n], a]) for n, a in prog)
    labels = sorted(opc.findlabels(code, opc))
    maps = opc.get_jump_target_maps(code, opc)
    # targets according to get_jump_target_maps: keys having a predecessor that is
    # not the textually preceding instruction
    jump_targets = sorted(
        t for t, prevs in maps.items() if any(p != t - 2 for p in prevs)
    )
    ok = jump_targets == labels
    print("%s findlabels=%r  get_jump_target_maps jump targets=%r  %s" % (
        ".".join(map(str, vt)), labels, jump_targets, "ok" if ok else "DIFFER"))
    if not ok:
        bad += 1
sys.exit(1 if bad else 0)

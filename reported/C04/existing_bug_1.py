"""FOR_LOOP (opcode 114) of Python 1.0 - 2.2 is a relative jump (CPython's dis.py
has ``jrel_op('FOR_LOOP', 114)  # Number of bytes to skip`` and ceval does
JUMPBY(oparg) when the sequence is exhausted), but xdis defines it with a plain
def_op, so it is in neither JREL_OPS nor JABS_OPS: findlabels() misses the
loop-exit target, the target instruction is not flagged is_jump_target and the
instruction's argval is the raw operand rather than the target offset."""
import sys
from xdis.op_imports import get_opcode_module
from xdis.bytecode import get_instructions_bytes

bad = 0
for vt in [(1, 0), (1, 3), (1, 5), (1, 6), (2, 0), (2, 1), (2, 2)]:
    opc = get_opcode_module(vt, None)
    om = opc.opmap

    def ins(name, arg=None):
        return bytes([om[name]]) if arg is None else bytes([om[name], arg & 255, arg >> 8])

    # for i in seq: pass   (the 1.x/2.x shape)
    code = (
        ins("SETUP_LOOP", 19)      # 0  -> 22
        + ins("LOAD_CONST", 0)     # 3
        + ins("LOAD_CONST", 1)     # 6
        + ins("FOR_LOOP", 6)       # 9  exit -> 9 + 3 + 6 = 18
        + ins("STORE_NAME", 0)     # 12
        + ins("JUMP_ABSOLUTE", 9)  # 15
        + ins("POP_BLOCK")         # 18  <- FOR_LOOP exit target
        + ins("LOAD_CONST", 0)     # 19
        + ins("RETURN_VALUE")      # 22
    )
    expected_labels = [9, 18, 22]
    labels = sorted(opc.findlabels(code, opc))
    insts = {i.offset: i for i in get_instructions_bytes(code, opc)}
    fl = insts[9]
    problems = []
    if labels != expected_labels:
        problems.append("findlabels=%r expected %r" % (labels, expected_labels))
    if fl.argval != 18:
        problems.append("FOR_LOOP argval=%r expected 18 (optype %r)" % (fl.argval, fl.optype))
    if not insts[18].is_jump_target:
        problems.append("POP_BLOCK at 18 (FOR_LOOP exit) is_jump_target=%r" % insts[18].is_jump_target)
    if problems:
        bad += 1
        print("Python %s: FOR_LOOP in JREL_OPS: %s; %s" % (
            ".".join(map(str, vt)), om["FOR_LOOP"] in opc.JREL_OPS, "; ".join(problems)))
sys.exit(1 if bad else 0)

"""An EXTENDED_ARG prefix followed by an instruction that takes no operand.

The label finders (wordcode.findlabels -> unpack_opargs_wordcode /
unpack_opargs_bytecode_310, and cross_dis.unpack_opargs_bytecode for pre-3.6)
only reset the pending EXTENDED_ARG value when they see an instruction *with*
an operand, so the prefix leaks through the operand-less instruction into the
next jump.  The instruction decoder (get_logical_instruction_at_offset) starts
every logical instruction with extended_arg = 0, as the interpreter does
(ceval applies EXTENDED_ARG to the very next instruction only).  So on such
code findlabels() is not the set of targets shown on the jump instructions,
is_jump_target is set on the wrong instruction, and the label is not an
instruction start.  CPython's own dis resets the pending value in that
``else`` branch from 3.10 on (dis.findlabels gives [8] for the 3.10 and 3.12
samples below; the script asks the matching interpreter when it is installed),
so for 3.10+ bytecode xdis also disagrees with CPython's dis.findlabels."""
import os
import subprocess
import sys
from xdis.op_imports import get_opcode_module
from xdis.bytecode import get_instructions_bytes

bad = 0
for vt in [(2, 7), (3, 8), (3, 10), (3, 12)]:
    opc = get_opcode_module(vt, None)
    om = opc.opmap
    word = vt >= (3, 6)

    def ins(name, arg=0):
        op = om[name]
        if word:
            return bytes([op, arg & 255])
        return bytes([op]) if op < opc.HAVE_ARGUMENT else bytes([op, arg & 255, arg >> 8])

    nop = "NOP"
    ret = [ins("RETURN_CONST", 0)] if "RETURN_CONST" in om else [ins("LOAD_CONST", 0), ins("RETURN_VALUE")]
    code = b"".join([ins("EXTENDED_ARG", 1), ins(nop), ins("JUMP_FORWARD", 1 if vt >= (3, 10) else (2 if word else 1)),
                     ins(nop), ins(nop)] + ret)
    labels = sorted(opc.findlabels(code, opc))
    insts = list(get_instructions_bytes(code, opc))
    targets = sorted(i.argval for i in insts if i.opcode in opc.JREL_OPS | opc.JABS_OPS)
    flagged = sorted(i.offset for i in insts if i.is_jump_target)
    ok = labels == targets == flagged
    exe = {(3, 8): "3.8.18", (3, 10): "3.10.13", (3, 12): "3.12.1", (2, 7): "2.7.18"}[vt]
    exe = "/root/.pyenv/versions/%s/bin/python" % exe
    if os.path.exists(exe):
        cpy = subprocess.check_output(
            [exe, "-c", "import dis,sys,binascii; print(sorted(dis.findlabels(binascii.unhexlify(sys.argv[1]))))", code.hex()]
        ).decode().strip()
        print("   CPython %s dis.findlabels -> %s" % (exe.split("/")[4], cpy))
    print("%s: findlabels=%r jump argvals=%r is_jump_target offsets=%r len=%d %s" % (
        ".".join(map(str, vt)), labels, targets, flagged, len(code), "ok" if ok else "DISAGREE"))
    bad += not ok
sys.exit(1 if bad else 0)

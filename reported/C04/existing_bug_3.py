"""Bytecode.disassemble_bytes(asm_format="asm") folds an EXTENDED_ARG prefix into
the following instruction and then unconditionally sets is_jump_target=True on
that instruction (bytecode.py, the ``extended_arg_jump_target_offset`` branch),
whether or not anything jumps to the EXTENDED_ARG or to the instruction.  So
every instruction that needs EXTENDED_ARG is reported (and printed, as a
"L<n>:" label) as a jump target although its offset is not in findlabels()."""
import io, sys
from xdis.op_imports import get_opcode_module
from xdis.bytecode import Bytecode

opc = get_opcode_module((3, 8), None)
om = opc.opmap
prog = [("EXTENDED_ARG", 1), ("LOAD_CONST", 4), ("POP_TOP", 0), ("LOAD_CONST", 0), ("RETURN_VALUE", 0)]
code = b"".join(bytes([om[n], a]) for n, a in prog)


class Co:  # minimal code-like object
    co_code = code
    co_consts = tuple(range(300))
    co_names = co_varnames = co_cellvars = co_freevars = ()
    co_filename = "<x>"
    co_name = "x"
    co_firstlineno = 1
    co_lnotab = b""
    co_argcount = co_posonlyargcount = co_kwonlyargcount = co_nlocals = co_stacksize = co_flags = 0


labels = opc.findlabels(code, opc)
b = Bytecode(Co, opc)
out = io.StringIO()
insts = b.disassemble_bytes(code, constants=Co.co_consts, file=out, asm_format="asm", show_source=False)
flagged = [(i.offset, i.opname) for i in insts if i.is_jump_target]
print("findlabels:", labels)
print("asm listing:\n" + out.getvalue())
print("instructions flagged is_jump_target in asm format:", flagged)
sys.exit(1 if flagged and not labels else 0)

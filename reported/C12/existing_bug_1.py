"""Existing defect (unpatched xdis): a valid .pyc holding a large int constant
cannot be listed in any listing format.

get_const_info() (xdis/bytecode.py) and format_code_info() -> better_repr()
(xdis/cross_dis.py, xdis/util.py) call repr() on the constant; on hosts with the
int->str digit limit (3.11+, and 3.8-3.10 security releases) repr() of an int
with more than 4300 decimal digits raises ValueError, which propagates out of
disassemble_file().  A hex literal of that size is legal source on every
Python version, so the bytecode file is valid.

Exit 1 (printing the failures) when the defect is present."""
import io
import os
import py_compile
import shutil
import subprocess
import sys
import tempfile

OTHER = "/root/.pyenv/versions/3.8.18/bin/python"


def main():
    tmpdir = tempfile.mkdtemp(prefix="c12bug1-")
    try:
        src = os.path.join(tmpdir, "bigint.py")
        with open(src, "w") as f:
            f.write("x = 0x" + "f" * 5000 + "\ny = x\n")
        pycs = []
        host_pyc = os.path.join(tmpdir, "bigint-host.pyc")
        py_compile.compile(src, host_pyc, doraise=True)
        pycs.append(host_pyc)
        if os.path.exists(OTHER):
            other_pyc = os.path.join(tmpdir, "bigint-38.pyc")
            subprocess.check_call(
                [OTHER, "-c",
                 "import py_compile,sys; py_compile.compile(sys.argv[1], sys.argv[2], doraise=True)",
                 src, other_pyc]
            )
            pycs.append(other_pyc)

        from xdis.disasm import disassemble_file

        failures = []
        for pyc in pycs:
            for fmt in ("classic", "bytes", "extended", "extended-bytes", "xasm", "header"):
                try:
                    disassemble_file(pyc, io.StringIO(), fmt)
                except Exception as e:  # noqa
                    failures.append((os.path.basename(pyc), fmt, "%s: %s" % (type(e).__name__, str(e)[:70])))
        for f in failures:
            print("disassemble_file raised:", f)
        if failures:
            return 1
        print("ok: all formats completed")
        return 0
    finally:
        shutil.rmtree(tmpdir, ignore_errors=True)


if __name__ == "__main__":
    sys.exit(main())

"""Existing defect (unpatched xdis): one disassemble_file(..., alternate_opmap=M)
call permanently rewrites the shared opcode module of that bytecode version.

xdis/disasm.py:get_opcode() -> xdis/op_imports.py:remap_opcodes() does
setattr(op_obj, ...) on the module object kept in op_imports (opname, opmap,
has* lists, HAVE_ARGUMENT, REMAPPED=True) and returns that same object.  Every
later, ordinary disassembly (no alternate_opmap) of a file of the same version
in the same process is listed with the remapped opcode names, so the listing is
no longer faithful to the instruction stream.  (A second, different
alternate_opmap is also silently ignored because of the REMAPPED early return.)

Exit 1 (printing the evidence) when the defect is present."""
import io
import os
import shutil
import subprocess
import sys
import tempfile

PY37 = "/root/.pyenv/versions/3.7.16/bin/python"


def listing(disassemble_file, pyc, **kw):
    out = io.StringIO()
    disassemble_file(pyc, out, "classic", **kw)
    return [l for l in out.getvalue().split("\n") if l.strip() and not l.startswith("#")]


def main():
    tmpdir = tempfile.mkdtemp(prefix="c12bug2-")
    try:
        src = os.path.join(tmpdir, "m.py")
        pyc = os.path.join(tmpdir, "m.pyc")
        with open(src, "w") as f:
            f.write("a = 1\nb = a\n")
        subprocess.check_call(
            [PY37, "-c",
             "import py_compile,sys; py_compile.compile(sys.argv[1], sys.argv[2], doraise=True)",
             src, pyc]
        )
        from xdis.disasm import disassemble_file
        from xdis.op_imports import op_imports

        before = listing(disassemble_file, pyc)
        opmap = op_imports["3.7"].opmap
        alt = {"LOAD_NAME": opmap["STORE_NAME"], "STORE_NAME": opmap["LOAD_NAME"]}
        listing(disassemble_file, pyc, alternate_opmap=alt)   # e.g. a file from a patched interpreter
        after = listing(disassemble_file, pyc)                 # ordinary call again

        if before != after:
            print("same file, same call, different listing after an alternate_opmap call:")
            for x, y in zip(before, after):
                if x != y:
                    print("   before: %s" % x)
                    print("   after:  %s" % y)
            return 1
        print("ok: listings identical")
        return 0
    finally:
        shutil.rmtree(tmpdir, ignore_errors=True)


if __name__ == "__main__":
    sys.exit(main())

"""Existing defect (unpatched xdis): the hex column of the "bytes" /
"extended-bytes" listings does not show the bytes of the instruction.

xdis/instruction.py, Instruction.disassemble():
 * pre-3.6 bytecode (3-byte instructions): the operand is printed with
   '" %02x %02x" % divmod(self.arg, 256)', i.e. high byte first, but the
   instruction stream stores it low byte first -> the two bytes are swapped
   whenever they differ (and the format breaks for operands > 0xffff).
 * 3.6+ bytecode: for an instruction that follows EXTENDED_ARG, inst_size counts
   the prefix too (4, 6, ...), no branch matches and the operand byte is dropped
   ('|64|' instead of '|64 00|').

Exit 1 (printing the evidence) when the defect is present."""
import io
import os
import re
import shutil
import subprocess
import sys
import tempfile

PY27 = "/root/.pyenv/versions/2.7.18/bin/python"
PY38 = "/root/.pyenv/versions/3.8.18/bin/python"

# > 256 distinct constants so that both a two-byte operand with differing bytes
# (2.7) and an EXTENDED_ARG prefix (3.8) occur.
SOURCE = "x = [" + ", ".join(str(1000 + i) for i in range(300)) + "]\n" + \
         "".join("a%d = %d\n" % (i, 5000 + i) for i in range(300))

ROW = re.compile(r"^\s*(?:\d+:)?\s*(?:>>)?\s*(\d+)\s+\|([0-9a-f ]*)\|\s+([A-Z][A-Z0-9_+]+)")


def main():
    tmpdir = tempfile.mkdtemp(prefix="c12bug3-")
    try:
        src = os.path.join(tmpdir, "m.py")
        with open(src, "w") as f:
            f.write(SOURCE)
        from xdis.disasm import disassemble_file
        from xdis.load import load_module

        bad = 0
        for python, tag in ((PY27, "2.7"), (PY38, "3.8")):
            pyc = os.path.join(tmpdir, "m-%s.pyc" % tag)
            subprocess.check_call(
                [python, "-c",
                 "import py_compile,sys; py_compile.compile(sys.argv[1], sys.argv[2], doraise=True)",
                 src, pyc]
            )
            code = bytes(bytearray(load_module(pyc)[3].co_code))
            size = lambda op: 2 if tag == "3.8" else (3 if op >= 90 else 1)
            out = io.StringIO()
            disassemble_file(pyc, out, "bytes")
            shown = 0
            for line in out.getvalue().split("\n"):
                m = ROW.match(line)
                if not m:
                    continue
                offset = int(m.group(1))
                got = m.group(2).split()
                want = ["%02x" % b for b in code[offset:offset + size(code[offset])]]
                if got != want:
                    bad += 1
                    if shown < 4:
                        shown += 1
                        print("%s bytecode, offset %d %s: listing shows |%s| but the code bytes are |%s|"
                              % (tag, offset, m.group(3), " ".join(got), " ".join(want)))
        if bad:
            print("%d instruction rows show bytes that are not in the instruction stream" % bad)
            return 1
        print("ok")
        return 0
    finally:
        shutil.rmtree(tmpdir, ignore_errors=True)


if __name__ == "__main__":
    sys.exit(main())

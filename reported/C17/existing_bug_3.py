"""Existing robustness defect (ill-formed input): a one-line-form location
entry (codes 10..12) stores its two columns as raw bytes.  CPython's
co_positions() reads them as such, even when >= 128 (the compiler never emits
that, but code.replace(co_linetable=...) accepts it).  xdis
parse_location_entries()/Code311.co_positions() first splits the table on
every byte with bit 7 set, so it takes the column byte for the start of a new
entry and raises IndexError; xdis parse_positions() decodes it as CPython does.

Exit status 1 and the evidence when the defect is present.
"""
import sys

from xdis.codetype.code311 import parse_location_entries, parse_positions

TABLE = bytes([0x80 | (10 << 3) | 0, 200, 100, 0x80 | (1 << 3) | 1, 0x23])
FIRST = 5
# CPython 3.11.7 / 3.12.1 / 3.13.0:
EXPECTED = [(5, 5, 200, 100), (5, 5, 10, 13), (5, 5, 10, 13)]


def main():
    if sys.version_info >= (3, 11):
        native = list(
            (lambda: 0).__code__.replace(co_linetable=TABLE, co_firstlineno=FIRST).co_positions()
        )
        assert native == EXPECTED, native
    print("CPython co_positions()      :", EXPECTED)
    print("xdis parse_positions        :", list(parse_positions(TABLE, FIRST)))
    try:
        got = []
        for n, line, endline, col, endcol in parse_location_entries(TABLE, FIRST):
            got.extend([(line, endline, col, endcol)] * n)
    except Exception as e:
        print("xdis parse_location_entries : raised %r" % (e,))
        print("DEFECT: Code311.co_positions() cannot decode a table CPython decodes")
        return 1
    print("xdis parse_location_entries :", got)
    if got != EXPECTED:
        print("DEFECT: differs from CPython")
        return 1
    return 0


if __name__ == "__main__":
    sys.exit(main())

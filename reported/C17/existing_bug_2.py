"""Existing discrepancy (borderline): for 3.11 bytecode, Code311.co_lines()
merges consecutive location entries that have the same line into one range,
as CPython 3.12+ does.  CPython 3.11 itself does not merge: its co_lines()
yields one range per location entry.  The line of every code unit is the same,
only the (start, end) ranges differ from those of "the matching CPython".

Exit status 1 and the evidence when the discrepancy is present; needs
/root/.pyenv/versions/3.11.7/bin/python for the ground truth.
"""
import json
import os
import shutil
import subprocess
import sys
import tempfile

SOURCE = "def f(a, b):\n    return a.x + b.y\n"
GT = r"""
import sys, json, marshal, importlib.util
co = compile(open(sys.argv[1]).read(), "m.py", "exec")
open(sys.argv[2], "wb").write(importlib.util.MAGIC_NUMBER + b"\0" * 12 + marshal.dumps(co))
f = [c for c in co.co_consts if hasattr(c, "co_code")][0]
json.dump([list(x) for x in f.co_lines()], open(sys.argv[3], "w"))
"""


def main():
    from xdis.load import load_module

    py = "/root/.pyenv/versions/3.11.7/bin/python"
    if not os.path.exists(py):
        print("no 3.11 interpreter for ground truth")
        return 2
    tmp = tempfile.mkdtemp(prefix="c17bug2")
    try:
        src, pyc, out, gt = (os.path.join(tmp, n) for n in ("m.py", "m.pyc", "o.json", "gt.py"))
        open(src, "w").write(SOURCE)
        open(gt, "w").write(GT)
        subprocess.check_call([py, gt, src, pyc, out])
        expected = [tuple(x) for x in json.load(open(out))]
        co = load_module(pyc)[3]
        f = [c for c in co.co_consts if hasattr(c, "co_code")][0]
        got = [tuple(x) for x in f.co_lines()]
    finally:
        shutil.rmtree(tmp, ignore_errors=True)
    print("CPython 3.11 co_lines():", expected)
    print("xdis Code311.co_lines():", got)
    if got != expected:
        print("DISCREPANCY: ranges differ (per-code-unit lines are the same)")
        return 1
    return 0


if __name__ == "__main__":
    sys.exit(main())

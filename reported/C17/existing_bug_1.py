"""Existing defect: xdis.codetype.code311.parse_positions() reports a missing
column as -1; CPython's co_positions() reports None.

Entries without column information (form 13 "no columns", and the long form
with a stored column of 0) occur in ordinary compiler output, e.g. for the
first instructions of a class body or a generator.  The other xdis decoder,
parse_location_entries()/Code311.co_positions(), gets these right.

Exit status 1 and the evidence when the defect is present.
"""
import sys

from xdis.codetype.code311 import parse_location_entries, parse_positions

# Hand-written 3.11+ location table, first line 10:
#   0xe8|1 : form 13 (no columns), 2 code units, line delta +1   -> line 11
#   0xf0|0 : form 14 (long), 1 code unit, delta +2, 1 more line, no columns
#   0x80|0 : short form, 1 code unit, columns 2..5
TABLE = bytes([0xE9, 0x02, 0xF0, 0x04, 0x01, 0x00, 0x00, 0x80, 0x23])
FIRST = 10
# What CPython 3.11/3.12/3.13 answer for
#   (lambda: 0).__code__.replace(co_linetable=TABLE, co_firstlineno=10).co_positions()
EXPECTED = [
    (11, 11, None, None),
    (11, 11, None, None),
    (13, 14, None, None),
    (13, 13, 2, 5),
]


def main():
    if sys.version_info >= (3, 11):
        native = list(
            (lambda: 0).__code__.replace(co_linetable=TABLE, co_firstlineno=FIRST).co_positions()
        )
        assert native == EXPECTED, native
    got = list(parse_positions(TABLE, FIRST))
    other = []
    for n, line, endline, col, endcol in parse_location_entries(TABLE, FIRST):
        other.extend([(line, endline, col, endcol)] * n)
    print("CPython co_positions()      :", EXPECTED)
    print("xdis parse_location_entries :", other)
    print("xdis parse_positions        :", got)
    if got != EXPECTED:
        print("DEFECT: parse_positions() differs from CPython's co_positions()")
        return 1
    print("parse_positions() agrees with CPython")
    return 0


if __name__ == "__main__":
    sys.exit(main())
